(* C14 — duration literals AS WRITTEN (not only as printed): a text of the years-and-months or of the days-and-time
   pattern is given by the digit lists of its written components (any number of digits, leading zeros allowed).
   duration(text) denotes exactly the written sum when every written number fits u64 (and, for years and months, the
   total fits i64); it is rejected as soon as one written number does not fit u64 (fix for the silently skipped
   component) or the total of months is beyond i64.  Uses C14/Proofs.v, C14/Frac.v, C14/Dtd.v. *)
From Coq Require Import ZArith Bool List String Ascii Lia.
From DV Require Import Base.Calendar C15.Model C15.Proofs C14.Model C14.Proofs C14.Frac C14.Dtd.
Import ListNotations.
Open Scope string_scope.
Open Scope Z_scope.

(* a written component: its digits, most significant first; None = not written *)
Definition wcomp := option (list Z).
Definition lit_comp (u : ascii) (c : wcomp) : string :=
  match c with Some ds => str_of_digits ds ++ String u "" | None => "" end.
Definition wf_comp (c : wcomp) : Prop := match c with Some ds => ds <> [] /\ Forall isdig ds | None => True end.
Definition written (c : wcomp) : bool := match c with Some _ => true | None => false end.
Definition wval (c : wcomp) : Z := match c with Some ds => num ds | None => 0 end.
Definition oversized (c : wcomp) : Prop := u64_max < wval c.
Definition read_comp (c : wcomp) : option (option Z) := match c with Some ds => Some (Some (num ds)) | None => None end.

(* the seconds group: digits, optionally a point and fraction digits (possibly none: the listed finding duration-bare-point), S *)
Definition wf_frac (fr : option (list Z)) : Prop := match fr with Some fs => Forall isdig fs | None => True end.
Definition frac_val (fr : option (list Z)) : Z := match fr with Some fs => frac_nanos fs 100000000 | None => 0 end.
Definition lit_sec (cs : wcomp) (fr : option (list Z)) : string :=
  match cs with
  | Some ds => str_of_digits ds ++ (match fr with Some fs => String "."%char (str_of_digits fs) | None => "" end) ++ "S"
  | None => ""
  end.
Definition read_sec (cs : wcomp) (fr : option (list Z)) : option (Z * Z) :=
  match cs with Some ds => Some (num ds, frac_val fr) | None => None end.
Definition sec_nanos (cs : wcomp) (fr : option (list Z)) : Z :=
  match cs with Some ds => num ds * NS + frac_val fr | None => 0 end.

Definition ymd_lit (neg : bool) (cy cm : wcomp) : string :=
  (if neg then "-" else "") ++ "P" ++ (lit_comp "Y" cy ++ lit_comp "M" cm).
Definition time_part (ch cmi cs : wcomp) (fr : option (list Z)) : string :=
  if written ch || written cmi || written cs then "T" ++ (lit_comp "H" ch ++ lit_comp "M" cmi ++ lit_sec cs fr) else "".
Definition dtd_lit (neg : bool) (cd ch cmi cs : wcomp) (fr : option (list Z)) : string :=
  (if neg then "-" else "") ++ "P" ++ (lit_comp "D" cd ++ time_part ch cmi cs fr).

Definition signed (neg : bool) (x : Z) : Z := if neg then - x else x.

(* ---------------- digits ---------------- *)
Lemma append_empty : forall s : string, s ++ "" = s.
Proof. induction s as [|c s IH]; cbn; [reflexivity|rewrite IH; reflexivity]. Qed.

Lemma fold_num_nonneg : forall ds a, Forall isdig ds -> 0 <= a -> 0 <= fold_left (fun a d => 10 * a + d) ds a.
Proof.
  induction ds as [|d ds IH]; intros a F Ha; [exact Ha|].
  inversion F as [|? ? Hd Ht]; subst. cbn [fold_left]. apply IH; [exact Ht|]. unfold isdig in Hd. lia.
Qed.

Lemma num_nonneg : forall ds, Forall isdig ds -> 0 <= num ds.
Proof. intros ds F. unfold num. apply fold_num_nonneg; [exact F|lia]. Qed.

Lemma wval_nonneg : forall c, wf_comp c -> 0 <= wval c.
Proof. intros [ds|] W; [apply num_nonneg; apply W|cbn; lia]. Qed.

Lemma str_head_digit : forall ds r, Forall isdig ds -> ds <> [] ->
  exists c t d, str_of_digits ds ++ r = String c t /\ digit_val c = Some d.
Proof.
  intros ds r F N. destruct ds as [|d ds]; [congruence|]. inversion F as [|? ? Hd _]; subst.
  exists (digit_char d), (str_of_digits ds ++ r), d. split; [reflexivity|apply digit_val_char; exact Hd].
Qed.

(* ---------------- one component ---------------- *)
Lemma p_comp_ds : forall u ds r, Forall isdig ds -> ds <> [] -> digit_val u = None ->
  p_comp u (str_of_digits ds ++ String u r) = (Some (Some (num ds)), r).
Proof.
  intros u ds r F N Hu. unfold p_comp. rewrite span_digits_str by (try exact F; exact Hu).
  destruct ds as [|d t]; [congruence|]. rewrite Ascii.eqb_refl. reflexivity.
Qed.

Lemma no_comp_ds : forall u ds c r, Forall isdig ds -> digit_val c = None -> c <> u ->
  no_comp u (str_of_digits ds ++ String c r).
Proof.
  intros u ds c r F Hc Ne. unfold no_comp, p_comp. rewrite span_digits_str by (try exact F; exact Hc).
  destruct ds as [|d t]; [reflexivity|].
  destruct (Ascii.eqb_spec c u) as [E|_]; [contradiction|reflexivity].
Qed.

Lemma lit_comp_app : forall u ds rest, lit_comp u (Some ds) ++ rest = str_of_digits ds ++ String u rest.
Proof. intros u ds rest. unfold lit_comp. rewrite append_assoc. reflexivity. Qed.

Lemma p_comp_lit : forall u c rest, wf_comp c -> digit_val u = None -> no_comp u rest ->
  p_comp u (lit_comp u c ++ rest) = (read_comp c, rest).
Proof.
  intros u [ds|] rest W Hu N.
  - rewrite lit_comp_app. destruct W as [Ne F]. apply p_comp_ds; assumption.
  - cbn [lit_comp append read_comp]. exact N.
Qed.

(* a component of another unit, followed by something that does not start with a digit, is not a component of unit u *)
Lemma no_comp_lit : forall u v c rest, wf_comp c -> digit_val v = None -> v <> u -> nodigit_head rest ->
  no_comp u (lit_comp v c ++ rest).
Proof.
  intros u v [ds|] rest W Hv Ne N.
  - rewrite lit_comp_app. apply no_comp_ds; [apply W|exact Hv|exact Ne].
  - cbn [lit_comp append]. apply no_comp_nodigit. exact N.
Qed.

Lemma lit_sec_shape : forall cs fr, wf_comp cs ->
  lit_sec cs fr = "" \/
  exists ds c r, cs = Some ds /\ lit_sec cs fr = str_of_digits ds ++ String c r /\ digit_val c = None /\
                 c <> "H"%char /\ c <> "M"%char /\ c <> "Y"%char /\ c <> "D"%char.
Proof.
  intros [ds|] fr W; [right|left; reflexivity]. exists ds. destruct fr as [fs|]; cbn [lit_sec append].
  - exists "."%char, (str_of_digits fs ++ "S"). repeat split; (reflexivity || discriminate).
  - exists "S"%char, "". repeat split; (reflexivity || discriminate).
Qed.

Lemma no_comp_lit_sec : forall u cs fr, wf_comp cs -> u = "H"%char \/ u = "M"%char \/ u = "Y"%char \/ u = "D"%char ->
  no_comp u (lit_sec cs fr).
Proof.
  intros u cs fr W Hu. destruct (lit_sec_shape cs fr W) as [E|[ds [c [r [Ec [E [Dc [NH [NM [NY ND]]]]]]]]]]; rewrite E.
  - apply no_comp_nodigit. exact I.
  - subst cs. apply no_comp_ds; [apply W|exact Dc|]. destruct Hu as [->|[->|[->| ->]]]; assumption.
Qed.

Lemma no_comp_M_sec : forall u cmi cs fr, wf_comp cmi -> wf_comp cs -> u = "H"%char \/ u = "Y"%char \/ u = "D"%char ->
  no_comp u (lit_comp "M" cmi ++ lit_sec cs fr).
Proof.
  intros u [ds|] cs fr Wm Ws Hu.
  - rewrite lit_comp_app. apply no_comp_ds; [apply Wm|reflexivity|]. destruct Hu as [->|[->| ->]]; discriminate.
  - cbn [lit_comp append]. apply no_comp_lit_sec; [exact Ws|tauto].
Qed.

(* ---------------- years and months: the text is read component by component ---------------- *)
Lemma ymd_lit_parse : forall ro neg cy cm, wf_comp cy -> wf_comp cm ->
  parse_ymd_gen ro (ymd_lit neg cy cm) = ymd_fin ro neg (read_comp cy) (read_comp cm).
Proof.
  intros ro neg cy cm Wy Wm. unfold ymd_lit. rewrite parse_ymd_gen_body.
  assert (NY : no_comp "Y" (lit_comp "M" cm)).
  { rewrite <- (append_empty (lit_comp "M" cm)) at 1. apply no_comp_lit; [exact Wm|reflexivity|discriminate|exact I]. }
  rewrite (p_comp_lit "Y" cy _ Wy eq_refl NY).
  assert (NM : no_comp "M" "") by (apply no_comp_nodigit; exact I).
  rewrite <- (append_empty (lit_comp "M" cm)) at 1.
  rewrite (p_comp_lit "M" cm "" Wm eq_refl NM). reflexivity.
Qed.

(* ---------------- days and time ---------------- *)
Lemma lit_nonempty : forall u c rest, wf_comp c -> written c = true -> String.eqb (lit_comp u c ++ rest) "" = false.
Proof.
  intros u c rest W Wr. destruct c as [ds|]; [|discriminate]. destruct W as [Ne F]. rewrite lit_comp_app.
  destruct (str_head_digit ds (String u rest) F Ne) as [c [t [d [E _]]]]. rewrite E. reflexivity.
Qed.

Lemma dtd_tail_lit : forall ro neg cd ch cmi cs fr, wf_comp ch -> wf_comp cmi -> wf_comp cs -> wf_frac fr ->
  written ch || written cmi || written cs = true ->
  dtd_tail false ro neg cd (lit_comp "H" ch ++ lit_comp "M" cmi ++ lit_sec cs fr) =
  dtd_fin ro neg cd (read_comp ch) (read_comp cmi) (read_sec cs fr).
Proof.
  intros ro neg cd ch cmi cs fr Wh Wm Ws Wf Any. unfold dtd_tail.
  rewrite (p_comp_lit "H" ch _ Wh eq_refl (no_comp_M_sec "H" cmi cs fr Wm Ws (or_introl eq_refl))).
  rewrite (p_comp_lit "M" cmi _ Wm eq_refl (no_comp_lit_sec "M" cs fr Ws (or_intror (or_introl eq_refl)))).
  destruct cs as [ds|].
  - destruct Ws as [Ne F]. destruct fr as [fs|]; cbn [lit_sec append read_sec frac_val].
    + rewrite (span_digits_str ds (String "."%char (str_of_digits fs ++ "S")) F eq_refl). destruct ds as [|d0 t0]; [congruence|]. cbv beta iota.
      rewrite (span_digits_str fs "S" Wf eq_refl). reflexivity.
    + rewrite (span_digits_str ds "S" F eq_refl). destruct ds as [|d0 t0]; [congruence|]. reflexivity.
  - cbn [lit_sec span_digits read_sec]. cbv beta iota.
    assert (NE : String.eqb (lit_comp "H" ch ++ lit_comp "M" cmi ++ "") "" = false).
    { destruct ch as [hs|].
      - apply lit_nonempty; [exact Wh|reflexivity].
      - cbn [lit_comp append]. cbn [written orb] in Any. rewrite orb_false_r in Any. apply lit_nonempty; [exact Wm|exact Any]. }
    rewrite NE. reflexivity.
Qed.

Lemma nodigit_time_part : forall ch cmi cs fr, nodigit_head (time_part ch cmi cs fr).
Proof. intros. unfold time_part. destruct (written ch || written cmi || written cs); [reflexivity|exact I]. Qed.

Lemma dtd_lit_parse : forall ro neg cd ch cmi cs fr, wf_comp cd -> wf_comp ch -> wf_comp cmi -> wf_comp cs -> wf_frac fr ->
  parse_dtd_gen false ro (dtd_lit neg cd ch cmi cs fr) =
  dtd_fin ro neg (read_comp cd) (read_comp ch) (read_comp cmi) (read_sec cs fr).
Proof.
  intros ro neg cd ch cmi cs fr Wd Wh Wm Ws Wf. unfold dtd_lit.
  assert (B : parse_dtd_gen false ro ((if neg then "-" else "") ++ "P" ++ (lit_comp "D" cd ++ time_part ch cmi cs fr)) =
              dtd_body false ro neg (lit_comp "D" cd ++ time_part ch cmi cs fr)).
  { destruct neg; cbn [append]; [apply parse_dtd_gen_neg|apply parse_dtd_gen_pos]. }
  rewrite B. unfold dtd_body.
  rewrite (p_comp_lit "D" cd _ Wd eq_refl (no_comp_nodigit "D" _ (nodigit_time_part ch cmi cs fr))).
  unfold time_part. destruct (written ch || written cmi || written cs) eqn:Any.
  - cbn [append]. cbv beta iota. apply dtd_tail_lit; assumption.
  - rewrite !orb_false_iff in Any. destruct Any as [[Ah Am] As].
    destruct ch; [discriminate|]. destruct cmi; [discriminate|]. destruct cs; [discriminate|]. reflexivity.
Qed.

(* the conversion: every written number fits u64 -> the written sum *)
Lemma dtd_fin_written : forall ro neg cd ch cmi cs fr, wf_comp cd -> wf_comp ch -> wf_comp cmi -> wf_comp cs ->
  written cd || written ch || written cmi || written cs = true ->
  wval cd <= u64_max -> wval ch <= u64_max -> wval cmi <= u64_max -> wval cs <= u64_max ->
  dtd_fin ro neg (read_comp cd) (read_comp ch) (read_comp cmi) (read_sec cs fr) =
  Some (signed neg (wval cd * DAY_NS + wval ch * HOUR_NS + wval cmi * MIN_NS + sec_nanos cs fr)).
Proof.
  intros ro neg cd ch cmi cs fr Wd Wh Wm Ws Any Bd Bh Bm Bs. unfold dtd_fin, signed. cbv zeta.
  assert (Fd : comp_fits (read_comp cd) = true) by (destruct cd; [apply Z.leb_le; exact Bd|reflexivity]).
  assert (Fh : comp_fits (read_comp ch) = true) by (destruct ch; [apply Z.leb_le; exact Bh|reflexivity]).
  assert (Fm : comp_fits (read_comp cmi) = true) by (destruct cmi; [apply Z.leb_le; exact Bm|reflexivity]).
  assert (Pd : comp_present (read_comp cd) = written cd) by (destruct cd; reflexivity).
  assert (Ph : comp_present (read_comp ch) = written ch) by (destruct ch; reflexivity).
  assert (Pm : comp_present (read_comp cmi) = written cmi) by (destruct cmi; reflexivity).
  assert (Vd : comp_val (read_comp cd) = wval cd) by (destruct cd; reflexivity).
  assert (Vh : comp_val (read_comp ch) = wval ch) by (destruct ch; reflexivity).
  assert (Vm : comp_val (read_comp cmi) = wval cmi) by (destruct cmi; reflexivity).
  rewrite Fd, Fh, Fm, Pd, Ph, Pm, Vd, Vh, Vm, !andb_true_r. cbn [andb].
  destruct cs as [ds|]; cbn [read_sec sec_nanos written wval] in *.
  - replace (num ds <=? u64_max) with true by (symmetry; apply Z.leb_le; exact Bs).
    cbn [negb]. rewrite andb_false_r, !orb_true_r. reflexivity.
  - cbn [negb]. rewrite andb_false_r, orb_false_r in *. rewrite Any. reflexivity.
Qed.

(* after the fix: one written number that does not fit u64 -> the literal is invalid *)
Lemma dtd_fin_oversized : forall neg cd ch cmi cs fr,
  oversized cd \/ oversized ch \/ oversized cmi \/ oversized cs ->
  dtd_fin true neg (read_comp cd) (read_comp ch) (read_comp cmi) (read_sec cs fr) = None.
Proof.
  intros neg cd ch cmi cs fr O. unfold dtd_fin. cbv zeta.
  assert (G : comp_fits (read_comp cd) && comp_fits (read_comp ch) && comp_fits (read_comp cmi) &&
              match read_sec cs fr with Some (v, _) => v <=? u64_max | None => true end = false).
  { unfold oversized in O. rewrite !andb_false_iff.
    destruct O as [O|[O|[O|O]]].
    - left; left; left. destruct cd as [ds|]; cbn [wval] in O; [apply Z.leb_gt; exact O|unfold u64_max in O; lia].
    - left; left; right. destruct ch as [ds|]; cbn [wval] in O; [apply Z.leb_gt; exact O|unfold u64_max in O; lia].
    - left; right. destruct cmi as [ds|]; cbn [wval] in O; [apply Z.leb_gt; exact O|unfold u64_max in O; lia].
    - right. destruct cs as [ds|]; cbn [wval] in O; [apply Z.leb_gt; exact O|unfold u64_max in O; lia]. }
  rewrite G. reflexivity.
Qed.

(* ---------------- the two kinds do not overlap ---------------- *)
Lemma parse_ymd_of_dtd_lit : forall neg cd ch cmi cs fr, wf_comp cd -> wf_comp ch -> wf_comp cmi -> wf_comp cs ->
  written cd || written ch || written cmi || written cs = true ->
  parse_ymd (dtd_lit neg cd ch cmi cs fr) = None.
Proof.
  intros neg cd ch cmi cs fr Wd Wh Wm Ws Any. unfold dtd_lit.
  assert (NC : forall u, u <> "D"%char -> no_comp u (lit_comp "D" cd ++ time_part ch cmi cs fr)).
  { intros u Hu. apply no_comp_lit; [exact Wd|reflexivity|congruence|apply nodigit_time_part]. }
  apply parse_ymd_none; [apply NC; discriminate|apply NC; discriminate|].
  destruct cd as [ds|].
  - intros E. pose proof (lit_nonempty "D" (Some ds) (time_part ch cmi cs fr) Wd eq_refl) as N. rewrite E in N. discriminate.
  - cbn [lit_comp append written orb] in *. unfold time_part. rewrite Any. discriminate.
Qed.

Lemma parse_dtd_of_ymd_lit : forall tt ro neg cy cm, wf_comp cy -> wf_comp cm -> written cy || written cm = true ->
  parse_dtd_gen tt ro (ymd_lit neg cy cm) = None.
Proof.
  intros tt ro neg cy cm Wy Wm Any. unfold ymd_lit.
  assert (B : parse_dtd_gen tt ro ((if neg then "-" else "") ++ "P" ++ (lit_comp "Y" cy ++ lit_comp "M" cm)) =
              dtd_body tt ro neg (lit_comp "Y" cy ++ lit_comp "M" cm)).
  { destruct neg; cbn [append]; [apply parse_dtd_gen_neg|apply parse_dtd_gen_pos]. }
  rewrite B. unfold dtd_body.
  assert (ND : no_comp "D" (lit_comp "Y" cy ++ lit_comp "M" cm)).
  { destruct cy as [ys|].
    - rewrite lit_comp_app. apply no_comp_ds; [apply Wy|reflexivity|discriminate].
    - cbn [lit_comp append]. rewrite <- (append_empty (lit_comp "M" cm)).
      apply no_comp_lit; [exact Wm|reflexivity|discriminate|exact I]. }
  unfold no_comp in ND. rewrite ND.
  assert (H : exists c t d, lit_comp "Y" cy ++ lit_comp "M" cm = String c t /\ digit_val c = Some d).
  { destruct cy as [ys|].
    - rewrite lit_comp_app. destruct Wy as [Ne F]. apply str_head_digit; assumption.
    - cbn [lit_comp append written orb] in *. destruct cm as [ms|]; [|discriminate].
      unfold lit_comp. destruct Wm as [Ne F]. apply str_head_digit; assumption. }
  destruct H as [c [t [d [E Dc]]]]. rewrite E.
  destruct (Ascii.eqb_spec c "T"%char) as [->|NT]; [discriminate|].
  destruct c as [[] [] [] [] [] [] [] []]; try reflexivity; exfalso; apply NT; reflexivity.
Qed.

(* ---------------- theorems ---------------- *)
(* a years-and-months literal, however written (leading zeros, months above 11, one component only), denotes 12*years + months *)
Theorem ymd_literal_denotes : forall neg cy cm, wf_comp cy -> wf_comp cm -> written cy || written cm = true ->
  wval cy * 12 + wval cm <= i64_max ->
  parse_duration (ymd_lit neg cy cm) = Some (DYm (signed neg (wval cy * 12 + wval cm))).
Proof.
  intros neg cy cm Wy Wm Any B. unfold parse_duration, parse_duration_gen, parse_ymd.
  rewrite (ymd_lit_parse true neg cy cm Wy Wm).
  pose proof (wval_nonneg cy Wy) as Hy. pose proof (wval_nonneg cm Wm) as Hm.
  assert (Vy : comp_val (read_comp cy) = wval cy) by (destruct cy; reflexivity).
  assert (Vm : comp_val (read_comp cm) = wval cm) by (destruct cm; reflexivity).
  rewrite ymd_fin_value; rewrite ?Vy, ?Vm; try assumption; [reflexivity|].
  destruct cy; destruct cm; exact Any.
Qed.

(* a days-and-time literal, however written (PT36H, P0DT90M, PT86400.5S), denotes the written sum of nanoseconds *)
Theorem dtd_literal_denotes : forall neg cd ch cmi cs fr, wf_comp cd -> wf_comp ch -> wf_comp cmi -> wf_comp cs -> wf_frac fr ->
  written cd || written ch || written cmi || written cs = true ->
  wval cd <= u64_max -> wval ch <= u64_max -> wval cmi <= u64_max -> wval cs <= u64_max ->
  parse_duration (dtd_lit neg cd ch cmi cs fr) =
  Some (DDt (signed neg (wval cd * DAY_NS + wval ch * HOUR_NS + wval cmi * MIN_NS + sec_nanos cs fr))).
Proof.
  intros neg cd ch cmi cs fr Wd Wh Wm Ws Wf Any Bd Bh Bm Bs. unfold parse_duration, parse_duration_gen.
  rewrite (parse_ymd_of_dtd_lit neg cd ch cmi cs fr Wd Wh Wm Ws Any). unfold parse_dtd.
  rewrite (dtd_lit_parse true neg cd ch cmi cs fr Wd Wh Wm Ws Wf).
  rewrite (dtd_fin_written true neg cd ch cmi cs fr Wd Wh Wm Ws Any Bd Bh Bm Bs). reflexivity.
Qed.

Lemma oversized_written : forall c, oversized c -> written c = true.
Proof. intros [ds|] O; [reflexivity|]. unfold oversized, u64_max in O. cbn in O. lia. Qed.

(* one written number above 2^64-1, in any position, next to any other components, either sign: the literal is invalid *)
Theorem oversized_component_rejected :
  (forall neg cy cm, wf_comp cy -> wf_comp cm -> oversized cy \/ oversized cm ->
     parse_duration (ymd_lit neg cy cm) = None) /\
  (forall neg cd ch cmi cs fr, wf_comp cd -> wf_comp ch -> wf_comp cmi -> wf_comp cs -> wf_frac fr ->
     oversized cd \/ oversized ch \/ oversized cmi \/ oversized cs ->
     parse_duration (dtd_lit neg cd ch cmi cs fr) = None).
Proof.
  split.
  - intros neg cy cm Wy Wm O. unfold parse_duration, parse_duration_gen, parse_ymd.
    rewrite (ymd_lit_parse true neg cy cm Wy Wm).
    assert (Any : written cy || written cm = true).
    { destruct O as [O|O]; rewrite (oversized_written _ O); [reflexivity|apply orb_true_r]. }
    rewrite ymd_fin_oversized.
    + unfold parse_dtd. rewrite (parse_dtd_of_ymd_lit false true neg cy cm Wy Wm Any). reflexivity.
    + unfold oversized in O. apply andb_false_iff.
      destruct O as [O|O]; [left; destruct cy as [ds|]|right; destruct cm as [ds|]]; cbn [wval] in O;
        try (apply Z.leb_gt; exact O); unfold u64_max in O; lia.
  - intros neg cd ch cmi cs fr Wd Wh Wm Ws Wf O. unfold parse_duration, parse_duration_gen.
    assert (Any : written cd || written ch || written cmi || written cs = true).
    { destruct O as [O|[O|[O|O]]]; rewrite (oversized_written _ O); rewrite ?orb_true_r; reflexivity. }
    rewrite (parse_ymd_of_dtd_lit neg cd ch cmi cs fr Wd Wh Wm Ws Any). unfold parse_dtd.
    rewrite (dtd_lit_parse true neg cd ch cmi cs fr Wd Wh Wm Ws Wf).
    rewrite (dtd_fin_oversized neg cd ch cmi cs fr O). reflexivity.
Qed.

(* a total of months beyond i64 (the value type of a years-and-months duration): the literal is invalid *)
Theorem ymd_beyond_i64_rejected : forall neg cy cm, wf_comp cy -> wf_comp cm ->
  i64_max < wval cy * 12 + wval cm -> parse_duration (ymd_lit neg cy cm) = None.
Proof.
  intros neg cy cm Wy Wm B.
  pose proof (wval_nonneg cy Wy) as Hy. pose proof (wval_nonneg cm Wm) as Hm.
  assert (Any : written cy || written cm = true).
  { destruct cy; [reflexivity|]. destruct cm; [reflexivity|]. unfold i64_max in B. cbn in B. lia. }
  destruct (Z.le_gt_cases (wval cy) u64_max) as [Fy|Oy]; [destruct (Z.le_gt_cases (wval cm) u64_max) as [Fm|Om]|].
  - unfold parse_duration, parse_duration_gen, parse_ymd. rewrite (ymd_lit_parse true neg cy cm Wy Wm).
    assert (Vy : comp_val (read_comp cy) = wval cy) by (destruct cy; reflexivity).
    assert (Vm : comp_val (read_comp cm) = wval cm) by (destruct cm; reflexivity).
    rewrite ymd_fin_beyond_i64; rewrite ?Vy, ?Vm; try assumption.
    + unfold parse_dtd. rewrite (parse_dtd_of_ymd_lit false true neg cy cm Wy Wm Any). reflexivity.
    + destruct cy; [apply Z.leb_le; exact Fy|reflexivity].
    + destruct cm; [apply Z.leb_le; exact Fm|reflexivity].
  - apply (proj1 oversized_component_rejected); try assumption. right. exact Om.
  - apply (proj1 oversized_component_rejected); try assumption. left. exact Oy.
Qed.

(* the code before the repair read these literals as a different duration *)
Theorem oversized_component_orig_refuted :
  parse_duration_orig "P99999999999999999999Y1M" = Some (DYm 1) /\ parse_duration "P99999999999999999999Y1M" = None /\
  parse_duration_orig "-P99999999999999999999Y2M" = Some (DYm (-2)) /\ parse_duration "-P99999999999999999999Y2M" = None /\
  parse_duration_orig "P18446744073709551616DT1H" = Some (DDt HOUR_NS) /\ parse_duration "P18446744073709551616DT1H" = None /\
  parse_duration_orig "PT1H99999999999999999999.5S" = Some (DDt (HOUR_NS + 500000000)) /\ parse_duration "PT1H99999999999999999999.5S" = None /\
  parse_duration "P18446744073709551615DT1H" = Some (DDt (u64_max * DAY_NS + HOUR_NS)).
Proof. vm_compute. repeat split; reflexivity. Qed.

Example literal_nonvacuous :
  ymd_lit true (Some [0; 1]) (Some [1; 4]) = "-P01Y14M" /\
  parse_duration (ymd_lit true (Some [0; 1]) (Some [1; 4])) = Some (DYm (-26)) /\
  dtd_lit false (Some [2]) None (Some [9; 0]) (Some [0; 7]) (Some [5]) = "P2DT90M07.5S" /\
  parse_duration (dtd_lit false (Some [2]) None (Some [9; 0]) (Some [0; 7]) (Some [5])) = Some (DDt (2 * DAY_NS + 90 * MIN_NS + 7 * NS + 500000000)) /\
  dtd_lit false (Some (digits (u64_max + 1))) (Some [1]) None None None = "P18446744073709551616DT1H" /\
  oversized (Some (digits (u64_max + 1))) /\ wf_comp (Some (digits (u64_max + 1))).
Proof.
  repeat split; try (vm_compute; reflexivity); try discriminate.
  apply forallb_isdig. vm_compute. reflexivity.
Qed.
