(* C08 — median against the order statistics of the list; stddev against the definition of the sample standard deviation. *)
From Coq Require Import List NArith ZArith Bool Arith Lia Permutation Sorted.
From DV Require Import C09.Values C09.Model C09.Proofs C08.Model C08.Model2 C08.Proofs C08.SortProofs C08.ModeProofs C08.StddevSqrt.
Import ListNotations.

(* ================= counting ================= *)
Definition count {A} (f : A -> bool) (l : list A) : nat := length (filter f l).

Lemma count_app : forall A (f : A -> bool) a b, count f (a ++ b) = (count f a + count f b)%nat.
Proof. intros. unfold count. rewrite filter_app, app_length. reflexivity. Qed.
Lemma count_perm : forall A (f : A -> bool) l l', Permutation l l' -> count f l = count f l'.
Proof.
  intros A f l l' P. unfold count. induction P as [|x l l' P IH|x y l|l l' l'' P1 IH1 P2 IH2]; cbn [filter]; auto.
  - destruct (f x); cbn [length]; auto.
  - destruct (f x); destruct (f y); reflexivity.
  - congruence.
Qed.
Lemma count_all : forall A (f : A -> bool) l, (forall x, In x l -> f x = true) -> count f l = length l.
Proof.
  intros A f l H. unfold count. induction l as [|a l IH]; auto. cbn [filter]. rewrite (H a (or_introl eq_refl)). cbn [length]. f_equal.
  apply IH. intros x Hx. apply H. right. exact Hx.
Qed.
Lemma count_none : forall A (f : A -> bool) l, (forall x, In x l -> f x = false) -> count f l = O.
Proof.
  intros A f l H. unfold count. induction l as [|a l IH]; auto. cbn [filter]. rewrite (H a (or_introl eq_refl)).
  apply IH. intros x Hx. apply H. right. exact Hx.
Qed.
Lemma count_le_length : forall A (f : A -> bool) l, (count f l <= length l)%nat.
Proof. intros A f l. unfold count. induction l as [|a l IH]; auto. cbn [filter]. destruct (f a); cbn [length]; lia. Qed.
Lemma count_mono : forall A (f g : A -> bool) l, (forall x, f x = true -> g x = true) -> (count f l <= count g l)%nat.
Proof.
  intros A f g l H. unfold count. induction l as [|a l IH]; auto. cbn [filter].
  destruct (f a) eqn:F; [rewrite (H a F); cbn [length]; lia|]. destruct (g a); cbn [length]; lia.
Qed.

(* ================= order statistics ================= *)
(* v is the item number i (from 0) of l in ascending order: at most i items are below v and more than i items are not above v *)
Definition is_order_stat (l : list (Z * Z)) (i : nat) (v : Z * Z) : Prop :=
  In v l /\ (count (fun x => nlt x v) l <= i)%nat /\ (i < count (fun x => negb (nlt v x)) l)%nat.

Lemma nle_is_not_gt : forall a b, nle a b = negb (nlt b a).
Proof.
  intros a b. unfold nle, nlt. rewrite (ncmp_antisym (fst a) (snd a) (fst b) (snd b)).
  destruct (ncmp (fst a) (snd a) (fst b) (snd b)); reflexivity.
Qed.

Lemma sorted_split : forall A (R : A -> A -> Prop) a v b, StronglySorted R (a ++ v :: b) ->
  (forall x, In x a -> R x v) /\ (forall y, In y b -> R v y).
Proof.
  intros A R a v b. induction a as [|h a IH]; cbn [app]; intros Hs.
  - apply StronglySorted_inv in Hs. destruct Hs as [_ F]. rewrite Forall_forall in F. split; [intros x []|exact F].
  - apply StronglySorted_inv in Hs. destruct Hs as [Hs F]. destruct (IH Hs) as [H1 H2]. split; auto.
    intros x [<-|Hx]; auto. rewrite Forall_forall in F. apply F. apply in_or_app. right. left. reflexivity.
Qed.

Lemma nth_split' : forall A (l : list A) i d, (i < length l)%nat -> l = firstn i l ++ nth i l d :: skipn (S i) l.
Proof.
  intros A l. induction l as [|a l IH]; intros i d H; cbn [length] in H; [lia|].
  destruct i as [|i]; cbn [firstn nth skipn app]; [reflexivity|]. f_equal. apply IH. lia.
Qed.

Lemma sorted_order_stat : forall s i, asc s -> (i < length s)%nat -> is_order_stat s i (nth i s (0%Z, 0%Z)).
Proof.
  intros s i Hs H. set (v := nth i s (0%Z, 0%Z)).
  pose proof (nth_split' _ s i (0%Z, 0%Z) H) as E. fold v in E.
  assert (La : length (firstn i s) = i) by (rewrite firstn_length; lia).
  unfold asc in Hs. rewrite E in Hs. destruct (sorted_split _ _ _ _ _ Hs) as [Ha Hb].
  split; [|split].
  - apply nth_In. exact H.
  - rewrite E. rewrite count_app. change (v :: skipn (S i) s) with ([v] ++ skipn (S i) s). rewrite count_app.
    rewrite (count_none _ _ (skipn (S i) s)) by (intros y Hy; apply Hb; exact Hy).
    assert (count (fun x => nlt x v) [v] = O) by (unfold count; cbn [filter]; rewrite nlt_irrefl; reflexivity).
    pose proof (count_le_length _ (fun x => nlt x v) (firstn i s)). lia.
  - rewrite E. rewrite count_app. change (v :: skipn (S i) s) with ([v] ++ skipn (S i) s). rewrite count_app.
    rewrite (count_all _ _ (firstn i s)) by (intros x Hx; rewrite (Ha x Hx); reflexivity).
    assert (count (fun x => negb (nlt v x)) [v] = 1%nat) by (unfold count; cbn [filter]; rewrite nlt_irrefl; reflexivity).
    lia.
Qed.

Lemma order_stat_perm : forall l l' i v, Permutation l l' -> is_order_stat l i v -> is_order_stat l' i v.
Proof.
  intros l l' i v P (I & A & B). split; [eapply Permutation_in; eauto|].
  rewrite <- (count_perm _ _ l l' P), <- (count_perm _ _ l l' P). auto.
Qed.

(* the order statistic is determined up to the equality of numbers *)
Theorem order_stat_unique : forall l i v v', is_order_stat l i v -> is_order_stat l i v' -> neqv v v' = true.
Proof.
  assert (X : forall l i v v', is_order_stat l i v -> is_order_stat l i v' -> nlt v v' = false).
  { intros l i v v' (_ & _ & B) (_ & A' & _). destruct (nlt v v') eqn:L; auto. exfalso.
    assert ((count (fun x => negb (nlt v x)) l <= count (fun x => nlt x v') l)%nat); [|lia].
    apply count_mono. intros x Hx. apply negb_true_iff in Hx.
    destruct (nlt_negtrans v x v' L) as [H|H]; [congruence|exact H]. }
  intros l i v v' H H'. pose proof (X l i v v' H H') as L1. pose proof (X l i v' v H' H) as L2.
  destruct (neqv v v') eqn:N; auto. pose proof (nlt_total v v' L1 N). congruence.
Qed.

(* ================= median ================= *)
Theorem median_order_stat : forall n ns,
  let l := n :: ns in let k := (length l / 2)%nat in
  if Nat.even (length l)
  then exists lo hi, b_median (map vnum l) = vnum (ndiv (nadd lo hi) (2%Z, 0%Z)) /\ is_order_stat l (k - 1) lo /\ is_order_stat l k hi
  else exists m, b_median (map vnum l) = vnum m /\ is_order_stat l k m.
Proof.
  intros n ns l k. pose proof (median_spec n ns) as M. cbv zeta in M. fold l in M.
  destruct (nsort_spec l) as (Perm & Sorted & _).
  assert (Len : length (nsort l) = length l) by (apply Permutation_length; exact Perm).
  rewrite Len in M. fold k in M.
  assert (K : (k < length l)%nat) by (unfold k, l; cbn [length]; apply Nat.div_lt; lia).
  destruct (Nat.even (length l)) eqn:Ev.
  - exists (nth (k - 1) (nsort l) (0%Z, 0%Z)), (nth k (nsort l) (0%Z, 0%Z)). split; [exact M|]. split.
    + apply (order_stat_perm (nsort l) l); [exact Perm|]. apply sorted_order_stat; [exact Sorted|lia].
    + apply (order_stat_perm (nsort l) l); [exact Perm|]. apply sorted_order_stat; [exact Sorted|lia].
  - exists (nth k (nsort l) (0%Z, 0%Z)). split; [exact M|].
    apply (order_stat_perm (nsort l) l); [exact Perm|]. apply sorted_order_stat; [exact Sorted|lia].
Qed.

(* ================= stddev ================= *)
Definition rsum (l : list (Z * Z)) : Z * Z := fold_left radd l (0%Z, 0%Z).

Lemma stddev_collect_numbers : forall l sum acc,
  stddev_collect (map vnum l) sum acc = Some (fold_left radd l sum, acc ++ l).
Proof.
  induction l as [|[c e] l IH]; intros sum acc; cbn [map vnum fst snd stddev_collect fold_left].
  - rewrite app_nil_r. reflexivity.
  - rewrite IH. rewrite <- app_assoc. reflexivity.
Qed.
Lemma fold_left_map' : forall A B (f : A -> B) (g : B -> B -> B) l a,
  fold_left (fun s x => g s (f x)) l a = fold_left g (map f l) a.
Proof. intros A B f g l. induction l as [|x l IH]; intros a; cbn [fold_left map]; auto. Qed.

(* stddev(x1, ..., xn), n >= 2: the square root of (the sum of the squared deviations from the mean) / (n - 1);
   every operation is the exact one followed by the rounding to 34 digits (nround), the division is ndiv *)
Theorem stddev_spec : forall sqrt x1 x2 ns,
  let l := x1 :: x2 :: ns in
  let n := (Z.of_nat (length l), 0%Z) in
  let mean := ndiv (rsum l) n in
  let squares := map (fun x => rsquare (rsub x mean)) l in
  b_stddev sqrt (map vnum l) =
  match sqrt (ndiv (rsum squares) (rsub n (1%Z, 0%Z))) with Some r => vnum r | None => VNull end.
Proof.
  intros sqrt x1 x2 ns l n mean squares. unfold b_stddev.
  change (map vnum l) with (vnum x1 :: vnum x2 :: map vnum ns).
  change (vnum x1 :: vnum x2 :: map vnum ns) with (map vnum l).
  assert (E : stddev_collect (map vnum l) (0%Z, 0%Z) [] = Some (rsum l, l)) by (rewrite stddev_collect_numbers; reflexivity).
  unfold l at 1. cbn [map]. change (vnum x1 :: vnum x2 :: map vnum ns) with (map vnum l). rewrite E.
  unfold stddev_radicand. rewrite fold_left_map'. reflexivity.
Qed.

Theorem stddev_outside : forall sqrt,
  b_stddev sqrt [] = VNull /\ (forall x, b_stddev sqrt [x] = VNull) /\
  forall pre x post, (match x with VNum _ _ => False | _ => True end) -> b_stddev sqrt (map vnum pre ++ x :: post) = VNull.
Proof.
  intros sqrt. split; [reflexivity|]. split; [reflexivity|]. intros pre x post Hx.
  assert (N : forall sum acc, stddev_collect (map vnum pre ++ x :: post) sum acc = None).
  { induction pre as [|[c e] pre IH]; intros sum acc; cbn [map app vnum fst snd stddev_collect].
    - destruct x; try contradiction; reflexivity.
    - apply IH. }
  unfold b_stddev. rewrite N.
  destruct (map vnum pre ++ x :: post) as [|a [|b r]]; reflexivity.
Qed.

(* the rounding is the identity on coefficients of at most 34 digits: there the operations are the exact ones *)
Open Scope Z_scope.
Lemma nround_exact : forall c e, digits (Z.abs c) <= 34 -> nround (c, e) = (c, e).
Proof.
  intros c e H. unfold nround, round34. cbn [fst snd].
  destruct (digits (Z.abs c) - 34 <=? 0) eqn:E; [|apply Z.leb_gt in E; lia].
  destruct (c <? 0) eqn:S; f_equal; [apply Z.ltb_lt in S|apply Z.ltb_ge in S]; lia.
Qed.
Corollary radd_exact : forall a b, digits (Z.abs (fst (nadd a b))) <= 34 -> radd a b = nadd a b.
Proof. intros a b H. unfold radd. destruct (nadd a b) as [c e]. apply nround_exact. exact H. Qed.

(* with the integer square root as `sqrt`: stddev(2, 4, 4, 4, 5, 5, 7, 9) = sqrt(32 / 7), stddev(1, 2, 3) = sqrt(1) *)
Definition sqrt_int (a : Z * Z) : option (Z * Z) :=
  match to_int (fst a) (snd a) with Some n => if Z.sqrt n * Z.sqrt n =? n then Some (Z.sqrt n, 0) else None | None => None end.
Lemma stddev_nonvacuous :
  b_stddev sqrt_int (map vnum [(1, 0); (2, 0); (3, 0)]) = VNum 1 0 /\
  b_stddev sqrt_int (map vnum [(10, 0); (20, 0); (60, 0)]) = VNull /\
  match stddev_radicand_of (map vnum [(10, 0); (20, 0); (60, 0)]) with Some r => ncmp (fst r) (snd r) 700 0 | None => Gt end = Eq /\
  match stddev_radicand_of (map vnum [(2, 0); (4, 0); (4, 0); (4, 0); (5, 0); (5, 0); (7, 0); (9, 0)]) with
  | Some r => ncmp (fst r * 7) (snd r) 32 0 | None => Gt end = Lt /\
  rsub (5, 0) (1, 0) = (4, 0).
Proof. repeat split; vm_compute; reflexivity. Qed.

(* with the decimal128 square root of Base/DecRound.v (C02/Sqrt.v proves it correctly rounded): the values the code prints *)
Lemma stddev_dec_nonvacuous :
  b_stddev sqrt_dec (map vnum [(2, 0); (4, 0); (4, 0); (4, 0); (5, 0); (5, 0); (7, 0); (9, 0)]) = VNum 2138089935299395077476427847038028 (-33) /\
  pos_stddev sqrt_dec [VNum 10 0; VNum 20 0; VNum 60 0] = VNum 2645751311064590590501615753639260 (-32) /\
  pos_stddev sqrt_dec [VNum 10 0] = VNull /\ pos_stddev sqrt_dec [VList [VNum 1 0; VNum 3 0]] = b_stddev sqrt_dec [VNum 1 0; VNum 3 0].
Proof. repeat split; vm_compute; reflexivity. Qed.
