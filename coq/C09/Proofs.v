(* C09 — proofs about coq/C09/Model.v.  All statements are for all values (any nesting depth). *)
From Coq Require Import List NArith ZArith Bool Arith Lia.
From DV Require Import C09.Values C09.Model.
Import ListNotations.
Open Scope Z_scope.

(* ================= orders on atoms ================= *)

Lemma lcmp_antisym : forall a b, lcmp b a = CompOpp (lcmp a b).
Proof.
  induction a as [|x a IH]; destruct b as [|y b]; cbn [lcmp]; try reflexivity.
  rewrite (N.compare_antisym x y). destruct (N.compare x y); cbn [CompOpp]; auto.
Qed.

Lemma lcmp_refl : forall a, lcmp a a = Eq.
Proof. induction a as [|x a IH]; cbn [lcmp]; auto. rewrite N.compare_refl. exact IH. Qed.

Lemma lcmp_eq : forall a b, lcmp a b = Eq -> a = b.
Proof.
  induction a as [|x a IH]; destruct b as [|y b]; cbn [lcmp]; intros H; try discriminate; auto.
  destruct (N.compare x y) eqn:E; try discriminate.
  apply N.compare_eq_iff in E. subst y. f_equal. auto.
Qed.

Lemma lcmp_trans_lt : forall a b c, lcmp a b = Lt -> lcmp b c = Lt -> lcmp a c = Lt.
Proof.
  induction a as [|x a IH]; destruct b as [|y b]; destruct c as [|z c]; cbn [lcmp]; intros H1 H2; try discriminate; auto.
  destruct (N.compare x y) eqn:E1; try discriminate.
  - apply N.compare_eq_iff in E1. subst y. destruct (N.compare x z) eqn:E2; try discriminate; auto. eauto.
  - destruct (N.compare y z) eqn:E2; try discriminate.
    + apply N.compare_eq_iff in E2. subst z. rewrite E1. reflexivity.
    + assert (E3 : N.compare x z = Lt).
      { apply N.compare_lt_iff. apply N.compare_lt_iff in E1. apply N.compare_lt_iff in E2. eapply N.lt_trans; eauto. }
      rewrite E3. reflexivity.
Qed.

Lemma leqb_true : forall a b, leqb a b = true <-> a = b.
Proof.
  intros a b. unfold leqb. split.
  - destruct (lcmp a b) eqn:E; try discriminate. intros _. apply lcmp_eq. exact E.
  - intros ->. rewrite lcmp_refl. reflexivity.
Qed.

Lemma leqb_sym : forall a b, leqb a b = leqb b a.
Proof. intros a b. unfold leqb. rewrite (lcmp_antisym a b). destruct (lcmp a b); reflexivity. Qed.

Lemma ncmp_antisym : forall c1 e1 c2 e2, ncmp c2 e2 c1 e1 = CompOpp (ncmp c1 e1 c2 e2).
Proof. intros. unfold ncmp. rewrite (Z.min_comm e2 e1). apply Z.compare_antisym. Qed.

Lemma dcmp_antisym : forall y1 m1 d1 y2 m2 d2, dcmp y2 m2 d2 y1 m1 d1 = CompOpp (dcmp y1 m1 d1 y2 m2 d2).
Proof.
  intros. unfold dcmp.
  rewrite (Z.compare_antisym y1 y2), (Z.compare_antisym m1 m2), (Z.compare_antisym d1 d2).
  destruct (Z.compare y1 y2); cbn [CompOpp]; auto.
  destruct (Z.compare m1 m2); cbn [CompOpp]; auto.
Qed.

Lemma dcmp_is_eq : forall y1 m1 d1 y2 m2 d2,
  is_eq (dcmp y1 m1 d1 y2 m2 d2) = (y1 =? y2) && (m1 =? m2) && (d1 =? d2).
Proof.
  intros. unfold dcmp. rewrite !Z.eqb_compare.
  destruct (Z.compare y1 y2); cbn; auto; destruct (Z.compare m1 m2); cbn; auto.
Qed.

Lemma opp_is_lt : forall c, is_lt (CompOpp c) = is_gt c. Proof. destruct c; reflexivity. Qed.
Lemma opp_is_gt : forall c, is_gt (CompOpp c) = is_lt c. Proof. destruct c; reflexivity. Qed.
Lemma opp_is_le : forall c, is_le (CompOpp c) = is_ge c. Proof. destruct c; reflexivity. Qed.
Lemma opp_is_ge : forall c, is_ge (CompOpp c) = is_le c. Proof. destruct c; reflexivity. Qed.
Lemma opp_is_eq : forall c, is_eq (CompOpp c) = is_eq c. Proof. destruct c; reflexivity. Qed.

(* ================= and / or : Kleene tables, every non-boolean counts as null ================= *)

Definition bclass (v : value) : option bool := match v with VBool b => Some b | _ => None end.
Definition kand (a b : option bool) : option bool :=
  match a, b with
  | Some false, _ | _, Some false => Some false
  | Some true, Some true => Some true
  | _, _ => None end.
Definition kor (a b : option bool) : option bool :=
  match a, b with
  | Some true, _ | _, Some true => Some true
  | Some false, Some false => Some false
  | _, _ => None end.

Lemma and_kleene : forall a b, v_and a b = ob (kand (bclass a) (bclass b)).
Proof. intros a b. destruct a as [|[]| | | | | | | | | | |]; destruct b as [|[]| | | | | | | | | | |]; reflexivity. Qed.
Lemma or_kleene : forall a b, v_or a b = ob (kor (bclass a) (bclass b)).
Proof. intros a b. destruct a as [|[]| | | | | | | | | | |]; destruct b as [|[]| | | | | | | | | | |]; reflexivity. Qed.

(* ================= != is the negation of = ================= *)
Definition vnot (v : value) : value := match v with VBool x => VBool (negb x) | _ => VNull end.
Lemma ne_negation : forall a b, v_ne a b = vnot (v_eq a b).
Proof. intros a b. unfold v_ne, v_eq. destruct (teq a b) as [x|]; reflexivity. Qed.

(* ================= unfolding of the two loops inside eval_ternary_equality ================= *)

Fixpoint list_eq3 (f : value -> value -> option bool) (xs ys : list value) : bool :=
  match xs, ys with
  | x :: xs', y :: ys' => match f x y with Some true => list_eq3 f xs' ys' | _ => false end
  | _, _ => true
  end.

Fixpoint walk (f : value -> value -> option bool) (eb es : list (list N * value)) : option bool :=
  match es with
  | [] => Some true
  | (k, v) :: es' =>
      match lookup k eb with
      | Some v2 => match f v v2 with Some true => walk f eb es' | Some false => Some false | None => None end
      | None => Some false
      end
  end.

Lemma teq_gen_list : forall nl kf la lb,
  teq_gen nl kf (VList la) (VList lb) =
  if Nat.eqb (length la) (length lb) then Some (list_eq3 (teq_gen nl kf) la lb) else Some false.
Proof.
  intros nl kf la lb. cbn [teq_gen]. destruct (Nat.eqb (length la) (length lb)); auto. f_equal.
  revert lb. induction la as [|x la IH]; intros lb; destruct lb as [|y lb]; cbn [list_eq3]; auto.
  destruct (teq_gen nl kf x y) as [[]|]; auto.
Qed.

Lemma teq_gen_ctx : forall nl kf ea eb,
  teq_gen nl kf (VCtx ea) (VCtx eb) =
  if Nat.eqb (length ea) (length eb) then
    if kf && negb (forallb (fun e => has_key (fst e) eb) ea) then Some false else walk (teq_gen nl kf) eb ea
  else Some false.
Proof.
  intros nl kf ea eb. cbn [teq_gen]. destruct (Nat.eqb (length ea) (length eb)); auto.
  destruct (kf && negb (forallb (fun e => has_key (fst e) eb) ea)); auto.
  induction ea as [|[k v] ea IH]; cbn [walk]; auto.
  destruct (lookup k eb) as [v2|]; auto.
  destruct (teq_gen nl kf v v2) as [[]|]; auto.
Qed.

(* ================= nested induction over values ================= *)
Section ValueInd.
  Variable P : value -> Prop.
  Hypothesis HList : forall vs, Forall P vs -> P (VList vs).
  Hypothesis HCtx : forall es, Forall (fun e => P (snd e)) es -> P (VCtx es).
  Hypothesis HRange : forall lo lc hi hc, P lo -> P hi -> P (VRange lo lc hi hc).
  Hypothesis HAtom : forall v, match v with VList _ | VCtx _ | VRange _ _ _ _ => False | _ => True end -> P v.

  Fixpoint value_rect' (v : value) : P v :=
    match v with
    | VList vs => HList vs ((fix go (l : list value) : Forall P l :=
                               match l with [] => Forall_nil _ | x :: r => Forall_cons x (value_rect' x) (go r) end) vs)
    | VCtx es => HCtx es ((fix go (l : list (list N * value)) : Forall (fun e => P (snd e)) l :=
                             match l with [] => Forall_nil _ | e :: r => Forall_cons e (value_rect' (snd e)) (go r) end) es)
    | VRange lo lc hi hc => HRange lo lc hi hc (value_rect' lo) (value_rect' hi)
    | VNull => HAtom VNull I
    | VBool b => HAtom (VBool b) I
    | VNum c e => HAtom (VNum c e) I
    | VStr s => HAtom (VStr s) I
    | VDate y m d => HAtom (VDate y m d) I
    | VTime n o => HAtom (VTime n o) I
    | VDateTime y m d n o => HAtom (VDateTime y m d n o) I
    | VDtd n => HAtom (VDtd n) I
    | VYmd n => HAtom (VYmd n) I
    | VFun n => HAtom (VFun n) I
    end.
End ValueInd.

(* ================= facts about sorted keys ================= *)

Lemma keys_sorted_cons : forall k r, keys_sorted (k :: r) = true ->
  keys_sorted r = true /\ Forall (fun k' => lcmp k k' = Lt) r.
Proof.
  intros k r. revert k. induction r as [|k' r IH]; intros k H.
  - split; auto.
  - cbn [keys_sorted] in H. apply andb_true_iff in H. destruct H as [Hlt Hs].
    assert (Hk : lcmp k k' = Lt) by (destruct (lcmp k k'); try discriminate; auto).
    split; auto. constructor; auto.
    destruct (IH k' Hs) as [_ Hall].
    eapply Forall_impl; [|exact Hall]. intros k2 H2. cbn in H2. eapply lcmp_trans_lt; eauto.
Qed.

Lemma has_key_in : forall k es, has_key k es = true <-> In k (map fst es).
Proof.
  intros k es. unfold has_key. induction es as [|[k' v] es IH]; cbn [lookup map fst In].
  - split; [discriminate|tauto].
  - destruct (leqb k k') eqn:E.
    + apply leqb_true in E. subst k'. split; auto.
    + split.
      * intros H. right. apply IH. exact H.
      * intros [H|H]. { subst k'. rewrite (proj2 (leqb_true k k) eq_refl) in E. discriminate. } apply IH. exact H.
Qed.

Lemma lt_not_eq : forall k k', lcmp k k' = Lt -> k <> k'.
Proof. intros k k' H ->. rewrite lcmp_refl in H. discriminate. Qed.

Lemma sorted_nodup : forall ks, keys_sorted ks = true -> NoDup ks.
Proof.
  induction ks as [|k r IH]; intros H; [constructor|].
  destruct (keys_sorted_cons k r H) as [Hs Hall]. constructor; auto.
  intros Hin. rewrite Forall_forall in Hall. apply Hall in Hin. rewrite lcmp_refl in Hin. discriminate.
Qed.

(* strictly ascending lists of equal length, one included in the other, are equal *)
Lemma sorted_incl_eq : forall l1 l2, keys_sorted l1 = true -> keys_sorted l2 = true ->
  length l1 = length l2 -> incl l1 l2 -> l1 = l2.
Proof.
  induction l1 as [|k l1 IH]; intros l2 S1 S2 Hlen Hincl; destruct l2 as [|k' l2]; try discriminate; auto.
  destruct (keys_sorted_cons k l1 S1) as [S1' A1]. destruct (keys_sorted_cons k' l2 S2) as [S2' A2].
  rewrite Forall_forall in A1, A2.
  assert (Hk : k = k').
  { destruct (Hincl k (or_introl eq_refl)) as [E|Hin]; auto.
    (* k is in l2, hence k' < k, hence no element of k :: l1 is k' : k :: l1 is included in l2, too long *)
    exfalso. pose proof (A2 k Hin) as Hlt.
    assert (Hincl' : incl (k :: l1) l2).
    { intros x Hx. destruct (Hincl x Hx) as [E|Hin']; auto. exfalso. subst x.
      destruct Hx as [E|Hx].
      - subst k'. rewrite lcmp_refl in Hlt. discriminate.
      - pose proof (A1 k' Hx) as Hlt2. pose proof (lcmp_trans_lt _ _ _ Hlt Hlt2) as C. rewrite lcmp_refl in C. discriminate. }
    pose proof (NoDup_incl_length (sorted_nodup _ S1) Hincl') as L. cbn [length] in L, Hlen. lia. }
  subst k'. f_equal. apply IH; auto.
  intros x Hx. destruct (Hincl x (or_intror Hx)) as [E|Hin]; auto.
  exfalso. subst x. pose proof (A1 k Hx) as C. rewrite lcmp_refl in C. discriminate.
Qed.

Lemma forallb_has_key_incl : forall (ea eb : list (list N * value)),
  forallb (fun e => has_key (fst e) eb) ea = true <-> incl (map fst ea) (map fst eb).
Proof.
  intros ea eb. rewrite forallb_forall. split.
  - intros H k Hk. apply in_map_iff in Hk. destruct Hk as [e [<- He]]. apply has_key_in. auto.
  - intros H e He. apply has_key_in. apply H. apply in_map. exact He.
Qed.

Lemma lookup_head_sorted : forall k v es, lookup k ((k, v) :: es) = Some v.
Proof. intros. cbn [lookup]. rewrite (proj2 (leqb_true k k) eq_refl). reflexivity. Qed.

Lemma lookup_skip : forall k k' v es, k <> k' -> lookup k ((k', v) :: es) = lookup k es.
Proof.
  intros k k' v es H. cbn [lookup]. destruct (leqb k k') eqn:E; auto. apply leqb_true in E. contradiction.
Qed.

(* the lockstep walk over two entry lists with the same keys *)
Fixpoint walk2 (f : value -> value -> option bool) (ea eb : list (list N * value)) : option bool :=
  match ea, eb with
  | (_, v) :: ea', (_, v2) :: eb' =>
      match f v v2 with Some true => walk2 f ea' eb' | Some false => Some false | None => None end
  | _, _ => Some true
  end.

Lemma walk_walk2 : forall f ea eb T,
  map fst ea = map fst eb ->
  (forall k v2, In (k, v2) eb -> lookup k T = Some v2) ->
  walk f T ea = walk2 f ea eb.
Proof.
  intros f. induction ea as [|[k v] ea IH]; intros eb T Hk HT; destruct eb as [|[k' v2] eb]; try discriminate; auto.
  cbn [map fst] in Hk. injection Hk as Hk1 Hk2. subst k'.
  cbn [walk walk2]. rewrite (HT k v2 (or_introl eq_refl)).
  destruct (f v v2) as [[]|]; auto.
  apply IH; auto. intros k0 v0 Hin. apply HT. right. exact Hin.
Qed.

Lemma lookup_in_sorted : forall es k v, keys_sorted (map fst es) = true -> In (k, v) es -> lookup k es = Some v.
Proof.
  induction es as [|[k' v'] es IH]; intros k v S Hin; [contradiction|].
  cbn [map fst] in S. destruct (keys_sorted_cons _ _ S) as [S' A]. rewrite Forall_forall in A.
  destruct Hin as [E|Hin].
  - injection E as -> ->. apply lookup_head_sorted.
  - rewrite lookup_skip; auto.
    intros ->. pose proof (A k' (in_map fst _ _ Hin)) as C. cbn [fst] in C. rewrite lcmp_refl in C. discriminate.
Qed.

Lemma walk2_sym : forall f ea eb,
  Forall (fun e => forall b, wfv (snd e) = true -> wfv b = true -> f (snd e) b = f b (snd e)) ea ->
  forallb (fun e => wfv (snd e)) ea = true -> forallb (fun e => wfv (snd e)) eb = true ->
  walk2 f ea eb = walk2 f eb ea.
Proof.
  intros f. induction ea as [|[k v] ea IH]; intros eb HF Wa Wb; destruct eb as [|[k' v2] eb]; auto.
  cbn [forallb snd] in Wa, Wb. apply andb_true_iff in Wa, Wb. destruct Wa as [Wv Wa]. destruct Wb as [Wv2 Wb].
  inversion HF as [|? ? Hhd Htl]; subst. cbn [snd] in Hhd.
  cbn [walk2]. rewrite (Hhd v2 Wv Wv2). destruct (f v2 v) as [[]|]; auto.
Qed.

Lemma list_eq3_sym : forall f la lb,
  Forall (fun x => forall b, wfv x = true -> wfv b = true -> f x b = f b x) la ->
  forallb wfv la = true -> forallb wfv lb = true ->
  list_eq3 f la lb = list_eq3 f lb la.
Proof.
  intros f. induction la as [|x la IH]; intros lb HF Wa Wb; destruct lb as [|y lb]; auto.
  cbn [forallb] in Wa, Wb. apply andb_true_iff in Wa, Wb. destruct Wa as [Wx Wa]. destruct Wb as [Wy Wb].
  inversion HF as [|? ? Hhd Htl]; subst.
  cbn [list_eq3]. rewrite (Hhd y Wx Wy). destruct (f y x) as [[]|]; auto.
Qed.

(* ================= a = b and b = a give the same result ================= *)

Lemma dt_equal_sym : forall y1 m1 d1 n1 o1 y2 m2 d2 n2 o2,
  dt_equal y1 m1 d1 n1 o1 y2 m2 d2 n2 o2 = dt_equal y2 m2 d2 n2 o2 y1 m1 d1 n1 o1.
Proof.
  intros. unfold dt_equal. destruct (dtinst y1 m1 d1 n1 o1), (dtinst y2 m2 d2 n2 o2); auto. rewrite Z.eqb_sym. reflexivity.
Qed.

Lemma ctx_sym : forall ea eb,
  Forall (fun e => forall b, wfv (snd e) = true -> wfv b = true -> teq (snd e) b = teq b (snd e)) ea ->
  wfv (VCtx ea) = true -> wfv (VCtx eb) = true ->
  teq (VCtx ea) (VCtx eb) = teq (VCtx eb) (VCtx ea).
Proof.
  intros ea eb HF Wa Wb. unfold teq. rewrite !teq_gen_ctx. fold teq.
  cbn [wfv] in Wa, Wb. apply andb_true_iff in Wa, Wb. destruct Wa as [Sa Wa]. destruct Wb as [Sb Wb].
  rewrite (Nat.eqb_sym (length eb) (length ea)).
  destruct (Nat.eqb (length ea) (length eb)) eqn:EL; auto. apply Nat.eqb_eq in EL.
  cbn [andb].
  destruct (forallb (fun e => has_key (fst e) eb) ea) eqn:KA; destruct (forallb (fun e => has_key (fst e) ea) eb) eqn:KB; cbn [negb]; auto.
  - (* same keys both ways: lockstep *)
    assert (HK : map fst ea = map fst eb).
    { apply sorted_incl_eq; auto. { rewrite !map_length. exact EL. } apply forallb_has_key_incl. exact KA. }
    rewrite (walk_walk2 teq ea eb eb HK (fun k v => lookup_in_sorted eb k v Sb)).
    rewrite (walk_walk2 teq eb ea ea (eq_sym HK) (fun k v => lookup_in_sorted ea k v Sa)).
    apply walk2_sym; auto.
  - exfalso. apply forallb_has_key_incl in KA.
    assert (HK : map fst ea = map fst eb) by (apply sorted_incl_eq; auto; rewrite !map_length; exact EL).
    assert (KB' : forallb (fun e => has_key (fst e) ea) eb = true) by (apply forallb_has_key_incl; rewrite HK; apply incl_refl).
    rewrite KB' in KB. discriminate.
  - exfalso. apply forallb_has_key_incl in KB.
    assert (HK : map fst eb = map fst ea) by (apply sorted_incl_eq; auto; rewrite !map_length; auto).
    assert (KA' : forallb (fun e => has_key (fst e) eb) ea = true) by (apply forallb_has_key_incl; rewrite HK; apply incl_refl).
    rewrite KA' in KA. discriminate.
Qed.

Theorem teq_sym : forall a b, wfv a = true -> wfv b = true -> teq a b = teq b a.
Proof.
  intros a. pattern a. apply value_rect'; clear a.
  - (* lists *)
    intros la IH b Wa Wb. destruct b; try reflexivity.
    unfold teq. rewrite !teq_gen_list. fold teq. rewrite (Nat.eqb_sym (length vs) (length la)).
    destruct (Nat.eqb (length la) (length vs)); auto. f_equal.
    cbn [wfv] in Wa, Wb. apply list_eq3_sym; auto.
  - (* contexts *)
    intros ea IH b Wa Wb. destruct b; try reflexivity.
    apply ctx_sym; auto.
  - intros lo lc hi hc _ _ b _ _. destruct b; reflexivity.
  - intros a Ha b _ _.
    destruct a; try contradiction; destruct b; try reflexivity; unfold teq; cbn [teq_gen].
    + f_equal. repeat match goal with x : bool |- _ => destruct x end; reflexivity.
    + f_equal. rewrite (ncmp_antisym c e c0 e0). symmetry. apply opp_is_eq.
    + f_equal. apply leqb_sym.
    + f_equal. rewrite (Z.eqb_sym y y0), (Z.eqb_sym m m0), (Z.eqb_sym d d0). reflexivity.
    + f_equal. apply Z.eqb_sym.
    + apply dt_equal_sym.
    + f_equal. apply Z.eqb_sym.
    + f_equal. apply Z.eqb_sym.
Qed.

(* ================= mirror laws, for all pairs including mixed kinds ================= *)

Lemma vcmp_mirror : forall a b,
  vcmp_gen date_pcmp b a = option_map (option_map CompOpp) (vcmp_gen date_pcmp a b).
Proof.
  intros a b. destruct a; destruct b; try reflexivity; cbn [vcmp_gen option_map]; do 2 f_equal.
  - apply ncmp_antisym.
  - apply lcmp_antisym.
  - unfold date_pcmp. cbn [option_map]. f_equal. apply dcmp_antisym.
Qed.

Theorem lt_gt_mirror : forall a b, v_lt a b = v_gt b a.
Proof.
  intros a b. unfold v_lt, v_gt, rel_gen. rewrite (vcmp_mirror a b).
  destruct (vcmp_gen date_pcmp a b) as [[c|]|]; cbn [option_map]; auto. rewrite opp_is_gt. reflexivity.
Qed.
Theorem le_ge_mirror : forall a b, v_le a b = v_ge b a.
Proof.
  intros a b. unfold v_le, v_ge, rel_gen. rewrite (vcmp_mirror a b).
  destruct (vcmp_gen date_pcmp a b) as [[c|]|]; cbn [option_map]; auto. rewrite opp_is_ge. reflexivity.
Qed.

(* ================= one ordered kind: numbers, strings, dates ================= *)

Definition ordered_pair (a b : value) : Prop :=
  match a, b with
  | VNum _ _, VNum _ _ | VStr _, VStr _ | VDate _ _ _, VDate _ _ _ => True
  | _, _ => False
  end.

(* the comparison that all six operators agree on *)
Lemma ordered_cmp : forall a b, ordered_pair a b -> exists c,
  v_lt a b = VBool (is_lt c) /\ v_le a b = VBool (is_le c) /\ v_gt a b = VBool (is_gt c) /\
  v_ge a b = VBool (is_ge c) /\ v_eq a b = VBool (is_eq c) /\ v_ne a b = VBool (negb (is_eq c)).
Proof.
  intros a b H. destruct a; destruct b; try contradiction.
  - exists (ncmp c e c0 e0). repeat split; reflexivity.
  - exists (lcmp s s0). repeat split; reflexivity.
  - exists (dcmp y m d y0 m0 d0). unfold v_eq, v_ne, teq. cbn [teq_gen option_map ob]. rewrite <- dcmp_is_eq. repeat split; reflexivity.
Qed.

Definition exactly_one (x y z : value) : Prop :=
  (x = VBool true /\ y = VBool false /\ z = VBool false) \/
  (x = VBool false /\ y = VBool true /\ z = VBool false) \/
  (x = VBool false /\ y = VBool false /\ z = VBool true).

Theorem trichotomy : forall a b, ordered_pair a b -> exactly_one (v_lt a b) (v_eq a b) (v_gt a b).
Proof.
  intros a b H. destruct (ordered_cmp a b H) as [c (H1 & _ & H3 & _ & H5 & _)]. rewrite H1, H3, H5.
  unfold exactly_one. destruct c; cbn; tauto.
Qed.

Theorem le_iff_lt_or_eq : forall a b, ordered_pair a b -> v_le a b = v_or (v_lt a b) (v_eq a b).
Proof.
  intros a b H. destruct (ordered_cmp a b H) as [c (H1 & H2 & _ & _ & H5 & _)]. rewrite H1, H2, H5. destruct c; reflexivity.
Qed.

Theorem ge_iff_gt_or_eq : forall a b, ordered_pair a b -> v_ge a b = v_or (v_gt a b) (v_eq a b).
Proof.
  intros a b H. destruct (ordered_cmp a b H) as [c (_ & _ & H3 & H4 & H5 & _)]. rewrite H3, H4, H5. destruct c; reflexivity.
Qed.

Definition ordered_triple (x a b : value) : Prop := ordered_pair x a /\ ordered_pair x b.

(* x in [a..b] / (a..b] / [a..b) / (a..b) is the conjunction with <= at a closed end and < at an open end *)
Theorem in_range_iff_conj : forall x a b lc rc, ordered_triple x a b ->
  v_in x (VRange a lc b rc) = v_and ((if lc then v_le else v_lt) a x) ((if rc then v_le else v_lt) x b).
Proof.
  intros x a b lc rc [H1 H2].
  destruct x; destruct a; try contradiction; destruct b; try contradiction;
    unfold v_in, v_in_gen, in_range, in_range_gen, in_bounds_gen, date_between, ob, within.
  - rewrite (ncmp_antisym c0 e0 c e).
    destruct lc, rc; unfold v_le, v_lt, rel_gen; cbn [vcmp_gen v_and];
      rewrite ?opp_is_ge, ?opp_is_gt; reflexivity.
  - rewrite (lcmp_antisym s0 s).
    destruct lc, rc; unfold v_le, v_lt, rel_gen; cbn [vcmp_gen v_and];
      rewrite ?opp_is_ge, ?opp_is_gt; reflexivity.
  - rewrite (dcmp_antisym y0 m0 d0 y m d).
    destruct lc, rc; unfold v_le, v_lt, rel_gen, date_pcmp; cbn [vcmp_gen v_and];
      rewrite ?opp_is_ge, ?opp_is_gt; reflexivity.
Qed.

Theorem between_iff_in_range : forall x a b, v_between x a b = v_in x (VRange a true b true).
Proof. intros x a b. reflexivity. Qed.

Theorem between_iff_conj : forall x a b, ordered_triple x a b -> v_between x a b = v_and (v_le a x) (v_le x b).
Proof. intros x a b H. rewrite between_iff_in_range. apply (in_range_iff_conj x a b true true H). Qed.

(* ================= the orders themselves ================= *)
(* strings: lcmp is the lexicographic order; Eq exactly on equal strings (lcmp_eq, lcmp_refl), antisymmetric, transitive.
   numbers: ncmp compares the exact values c * 10^e *)
Lemma ncmp_spec : forall c1 e1 c2 e2,
  let e := Z.min e1 e2 in ncmp c1 e1 c2 e2 = Z.compare (c1 * 10 ^ (e1 - e)) (c2 * 10 ^ (e2 - e)).
Proof. reflexivity. Qed.

(* scaling both numbers by the same power of ten does not change the comparison *)
Lemma ncmp_scale : forall c1 e1 c2 e2 k, 0 <= k -> ncmp (c1 * 10 ^ k) (e1 - k) (c2 * 10 ^ k) (e2 - k) = ncmp c1 e1 c2 e2.
Proof.
  intros c1 e1 c2 e2 k Hk. unfold ncmp.
  replace (Z.min (e1 - k) (e2 - k)) with (Z.min e1 e2 - k) by lia.
  replace (e1 - k - (Z.min e1 e2 - k)) with (e1 - Z.min e1 e2) by lia.
  replace (e2 - k - (Z.min e1 e2 - k)) with (e2 - Z.min e1 e2) by lia.
  assert (P : 0 < 10 ^ k) by (apply Z.pow_pos_nonneg; lia).
  rewrite <- !Z.mul_assoc, (Z.mul_comm (10 ^ k) (10 ^ (e1 - Z.min e1 e2))), (Z.mul_comm (10 ^ k) (10 ^ (e2 - Z.min e1 e2))), !Z.mul_assoc.
  symmetry. apply Zmult_compare_compat_r. lia.
Qed.

(* a trailing zero does not change a number: 1.0 = 1, 1.00 = 1 *)
Lemma ncmp_trailing_zero : forall c e, ncmp (c * 10) (e - 1) c e = Eq.
Proof.
  intros c e. unfold ncmp. replace (Z.min (e - 1) e) with (e - 1) by lia.
  replace (e - 1 - (e - 1)) with 0 by lia. replace (e - (e - 1)) with 1 by lia.
  rewrite Z.pow_0_r, Z.pow_1_r, Z.mul_1_r. apply Z.compare_refl.
Qed.

Lemma eq_symmetric : forall a b, wfv a = true -> wfv b = true -> v_eq a b = v_eq b a.
Proof. intros a b Ha Hb. unfold v_eq. rewrite (teq_sym a b Ha Hb). reflexivity. Qed.

Lemma string_order : forall a b c,
  lcmp a a = Eq /\ (lcmp a b = Eq -> a = b) /\ lcmp b a = CompOpp (lcmp a b) /\ (lcmp a b = Lt -> lcmp b c = Lt -> lcmp a c = Lt).
Proof. intros a b c. split; [apply lcmp_refl|]. split; [apply lcmp_eq|]. split; [apply lcmp_antisym|apply lcmp_trans_lt]. Qed.

Lemma number_scale : forall c e c2 e2 k, 0 <= k ->
  ncmp (c * 10 ^ k) (e - k) (c2 * 10 ^ k) (e2 - k) = ncmp c e c2 e2 /\ ncmp (c * 10) (e - 1) c e = Eq.
Proof. intros. split; [apply ncmp_scale; assumption|apply ncmp_trailing_zero]. Qed.

(* ================= the defects of the pinned commit ================= *)

Lemma teq_orig_null_refuted : teq_orig (VNum 1 0) VNull = Some false /\ teq_orig VNull (VNum 1 0) = None.
Proof. split; reflexivity. Qed.

Lemma teq_orig_ctx_refuted :
  let a := VCtx [([97%N], VNum 1 0); ([99%N], VStr [115%N])] in
  let b := VCtx [([99%N], VNum 1 0); ([100%N], VNum 1 0)] in
  wfv a = true /\ wfv b = true /\ teq_orig a b = Some false /\ teq_orig b a = None.
Proof. repeat split; reflexivity. Qed.

Lemma far_dates_orig_refuted :
  let a := VDate 999999999 1 1 in let b := VDate 999999999 1 2 in
  v_lt_orig a b = VBool false /\ v_eq_orig a b = VBool false /\ v_gt_orig a b = VBool false /\
  v_between_orig a a b = VNull /\ v_and (v_le_orig a a) (v_le_orig a b) = VBool false.
Proof. repeat split; reflexivity. Qed.

Lemma nonvacuous :
  let a := VCtx [([97%N], VList [VNum 1 0; VNull]); ([98%N], VCtx [([99%N], VStr [233%N])])] in
  let b := VCtx [([97%N], VList [VNum 10 (-1); VNull]); ([98%N], VCtx [([99%N], VStr [233%N])])] in
  wfv a = true /\ wfv b = true /\ teq a b = Some true /\ teq b a = Some true /\
  ordered_triple (VDate 999999999 1 1) (VDate (-999999999) 12 31) (VDate 999999999 1 2) /\
  v_between (VDate 999999999 1 1) (VDate (-999999999) 12 31) (VDate 999999999 1 2) = VBool true.
Proof. cbn. repeat split; reflexivity. Qed.
