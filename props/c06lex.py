"""C06, text level — the lexer (feel-parser/src/lexer.rs Lexer::next_token) against its model coq/C06/Lexer.v.  Owner: ext-lexer.

Used by props/c06.py (`lexer_section`).  The real token stream comes from the harness sub-command `dv tokens` (read-only hook
`dmntk_feel_parser::verif_tokens` behind --cfg dmntk_verif: next_token iterated, the lexer's flags set explicitly before every token).

Two generators:
 * printable token lists (the quantifier of C06_lex_unlex, and more: every layout style of props/c06.py, tight where the pair of tokens
   allows it): the expected stream is the generated one -> a difference of the REAL lexer is a VIOLATION that names the text; the model
   must give the same stream (else the correspondence is broken);
 * adversarial texts (fragments of every token kind glued without layout, keyword look-alikes, broken literals, the white space characters
   U+1680 / U+180E / U+FEFF of the name character ranges, multi-word / symbol / keyword-spelled scope keys, random flag settings): real lexer = model,
   token by token (kind, semantic value, position after the token, flags after the token).
A third part parses texts end to end: parse_text (model lexer + abs + Spec parser) against dv ast for trees of the operator fragment.
"""
import json

from vlib.coqterm import App

HEADER = ('From Coq Require Import List NArith Bool.\nFrom DV Require Import C06.Model C06.Lexer.\nImport ListNotations.\nOpen Scope N_scope.\n')

KW_WS = ['satisfies', 'external', 'instance', 'between', 'return', 'every', 'else', 'some', 'then', 'and', 'for', 'if', 'in', 'of', 'or']
KW_LOOK = ['function', 'context', 'range', 'list']
KW_ALL = KW_WS + KW_LOOK + ['not', 'true', 'false', 'null']
KW_KIND = {'satisfies': 'Satisfies', 'external': 'External', 'instance': 'Instance', 'between': 'Between', 'return': 'Return', 'every': 'Every',
           'else': 'Else', 'some': 'Some', 'then': 'Then', 'and': 'And', 'for': 'For', 'if': 'If', 'in': 'In', 'of': 'Of', 'or': 'Or',
           'function': 'Function', 'context': 'Context', 'range': 'Range', 'list': 'List', 'not': 'Not'}
SYMS = {'..': 'Ellipsis', '**': 'Exp', '!=': 'Nq', '<=': 'Le', '>=': 'Ge', '->': 'RightArrow', '.': 'Dot', ',': 'Comma', ':': 'Colon', '+': 'Plus',
        '-': 'Minus', '*': 'Mul', '/': 'Div', '=': 'Eq', '<': 'Lt', '>': 'Gt', '(': 'LeftParen', ')': 'RightParen', '[': 'LeftBracket',
        ']': 'RightBracket', '{': 'LeftBrace', '}': 'RightBrace', '@': 'At'}
MODEL_KW = {'K' + v: v for v in list(KW_KIND.values()) + ['BetweenAnd']}
MODEL_SYM = {'SEllipsis': 'Ellipsis', 'SExp': 'Exp', 'SNq': 'Nq', 'SLe': 'Le', 'SGe': 'Ge', 'SArrow': 'RightArrow', 'SDot': 'Dot', 'SComma': 'Comma',
             'SColon': 'Colon', 'SPlus': 'Plus', 'SMinus': 'Minus', 'SMul': 'Mul', 'SDiv': 'Div', 'SEq': 'Eq', 'SLt': 'Lt', 'SGt': 'Gt',
             'SLp': 'LeftParen', 'SRp': 'RightParen', 'SLb': 'LeftBracket', 'SRb': 'RightBracket', 'SLbrace': 'LeftBrace', 'SRbrace': 'RightBrace',
             'SAt': 'At'}
TYPE_WORDS = ['number', 'string', 'boolean', 'Any', 'Null', 'time', 'date']
SEPARATORS = '=!<>+-*/%.,)[]}'
# single words: prefixes, extensions and neighbours of the keywords among them
PLAIN_KEYS = ['a', 'b', 'c', 'x', 'y', 'foo', 'bar_1', 'Zeta', 'äb', 'α', '_k', 'q9', 'i', 'n', 'an', 'andy', 'order', 'iff', 'inn', 'nullable',
              'truex', 'notx', 'to', 'fo', 'betweenx', 'instanceof', 'ands', 'o', 'f', 'listing', 'e1', 'E', '?', '?x', '日本']
ODD_KEYS = ['a b', 'a-b', 'foo bar', 'x+y', 'a.b', "it's", 'date', 'time', 'number', 'in', 'if', 'and', 'true', 'item', 'a  b', 'a - b', 'x y z',
            'date and time', 'list', 'not', 'a b', 'b﻿', 'for x', 'Total+', 'a+-b']


def cps(s):
    return [ord(c) for c in s]


def coq_list(xs):
    return '[' + '; '.join(str(x) for x in xs) + ']'


def coq_keys(keys):
    return '[' + '; '.join(coq_list(cps(k)) for k in keys) + ']'


def model_items(res):
    """list titem (parsed) -> the shape of dv tokens: [kind, [texts], pos, flags] ... with a last item for the way the stream ends."""
    out = []
    for it in res:
        n = it.name
        if n == 'ITok':
            t, pos, fl = it.args
            out.append(list(model_token(t)) + [pos, fl])
        else:
            out.append([{'IEof': 'YyEof', 'IUndef': 'YyUndef', 'IErr': 'Error'}[n], []])
    return out


def model_token(t):
    n = t.name
    if n == 'LKw':
        return MODEL_KW[t.args[0].name], []
    if n == 'LSym':
        return MODEL_SYM[t.args[0].name], []
    if n == 'LBool':
        return 'Boolean', [cps('true' if t.args[0] else 'false')]
    if n == 'LNull':
        return 'Null', []
    if n == 'LNum':
        return 'Numeric', [list(t.args[0]), list(t.args[1])]
    return {'LStr': 'String', 'LName': 'Name', 'LNameDT': 'NameDateTime', 'LType': 'BuiltInTypeName'}[n], [list(t.args[0])]


def impl_items(got):
    """dv tokens answer -> same shape; position and flags of the last item (end / undefined / error) are not compared."""
    if 'toks' not in got:
        return [['panic', [json.dumps(got)[:200]]]]
    out = []
    for kind, texts, pos, fl in got['toks']:
        if kind in ('YyEof', 'YyUndef', 'Error'):
            out.append([kind, []])
        else:
            out.append([kind, texts, pos, fl])
    return out


# ------------------------------------------------------------------------------------------------ printable token lists

def gen_numeral(rng):
    b = rng.choice(['0', '1', '7', '10', '42', '007', '00', '123456789', '0123456789012345678901234567890123456789'])
    if rng.random() < 0.4:
        a = rng.choice(['0', '5', '25', '001', '50'])
        return b + '.' + a, b, a
    return b, b, ''


def gen_printable(rng, c06):
    """(keys, [(text, kind, texts, flag)], sched): a token list whose stream is known, with the flag settings the parser would make."""
    keys = rng.sample(PLAIN_KEYS, rng.randint(1, 6))
    toks, sched = [], []
    between = typ = False
    n = rng.choice([1, 2, 3, 4, 6, 8, 12])
    prev = None
    for _ in range(n):
        bits = (2 if prev == 'between' else 0) | (4 if prev == 'of' else 0)
        between = between or prev == 'between'
        typ = typ or prev == 'of'
        sched.append(bits)
        r = rng.random()
        if typ and r < 0.7:
            w = rng.choice(TYPE_WORDS[:6])
            toks.append((w, 'BuiltInTypeName', [cps(w)], 'atom'))
            typ = False
            prev = w
            continue
        if r < 0.22:
            w = rng.choice([k for k in KW_WS if k not in ('for', 'some', 'every')])
            kind = KW_KIND[w]
            if w == 'and' and between:
                kind, between = 'BetweenAnd', False
            toks.append((w, kind, [], 'kw'))
        elif r < 0.30:
            w = rng.choice(['true', 'false', 'null'])
            toks.append((w, 'Null' if w == 'null' else 'Boolean', [] if w == 'null' else [cps(w)], 'lit'))
        elif r < 0.55:
            w = rng.choice(list(SYMS))
            toks.append((w, SYMS[w], [], ''))
        elif r < 0.68:
            if rng.random() < 0.2:
                a = rng.choice(['5', '05', '123'])
                toks.append(('.' + a, 'Numeric', [cps('0'), cps(a)], 'atom'))
            else:
                tx, b, a = gen_numeral(rng)
                toks.append((tx, 'Numeric', [cps(b), cps(a)], 'atom'))
        elif r < 0.78:
            s = c06.gen_string(rng)
            toks.append((s['text'], 'String', [list(s['cps'])], 'atom'))
        else:
            w = rng.choice(keys)
            toks.append((w, 'Name', [cps(w)], 'atom'))
        prev = toks[-1][0]
    return keys, toks, sched


def must_ws(p, t):
    """White space is required between the texts of two consecutive tokens (else the lexer would rightly read something else)."""
    ptx, pfl = p[0], p[3]
    tx = t[0]
    wordy = lambda c: c.isalnum() or c == '_' or ord(c) > 127 or c == '?'
    if pfl == 'kw':
        return True
    if pfl == 'lit' and tx[0] not in SEPARATORS:
        return True
    if wordy(ptx[-1]) and (wordy(tx[0]) or tx[0] == '.'):
        return True
    if ptx == '/' and tx[0] in '/*':
        return True
    if ptx in ('<', '>', '!', '*', '-', '.', '..') and tx[0] in '=*>.':
        return True
    if ptx == '.' and tx[0].isdigit():
        return True
    return False


def lay_printable(rng, c06, toks, style):
    """lead layout, then every token followed by its gap; returns the text pieces [(token text, gap after)] and the lead."""
    lead = c06.gap(rng, style, False, False) if style not in ('tight', 'plain') else ''
    pieces = []
    for i, t in enumerate(toks):
        if i + 1 < len(toks):
            g = c06.gap(rng, style, must_ws(t, toks[i + 1]), False)
            if t[0] == '/' and (g[:1] in ('/', '*')):
                g = ' ' + g
        else:
            g = c06.gap(rng, style, t[3] == 'kw', False, at_end=True) if style not in ('tight', 'plain') else ''
            if t[0] == '/' and (g[:1] in ('/', '*')):
                g = ' ' + g
        pieces.append((t[0], g))
    return lead, pieces


def text_of(lead, pieces):
    return lead + ''.join(tx + g for tx, g in pieces)


def expected_stream(lead, pieces, toks):
    out, pos = [], len(lead)
    for (tx, g), t in zip(pieces, toks):
        pos += len(tx)
        out.append([t[1], t[2], pos])
        pos += len(g)
    return out


# ------------------------------------------------------------------------------------------------ adversarial texts

FRAGS = (KW_ALL + list(SYMS) + ['an', 'andx', 'i', 'fo', 'inst', 'betwee', 'tru', 'nul', 'nullx', 'truee', 'iff', 'orx', 'item', 'items', 'item x', 'date', 'time',
                                'date and time', 'duration', 'date and', 'years and months duration', 'days and time duration', 'number', 'string', 'boolean', 'Any', 'Null',
                                'date :', 'time:', 'date  \t:', 'in', 'x in', 'a b in c', 'in+x',
                                '0', '1', '12', '007', '1.5', '1.', '.5', '..5', '1..2', '1.a', '1.5.5', '.', '5.',
                                '"', '""', '"a"', '"a', '"a\n"', '"\\u00e9"', '"\\uD83D\\uDE4F"', '"\\uD83D"', '"\\uD83Dx"', '"\\uDE4F"', '"\\U110000"', '"\\U10FFFF"',
                                '"\\u12"', '"\\x"', '"\\', '"\\"', '"\\""', '"\\\\"', '"\\n\\t\\r\\\'"', '"\r"', '"\u000b"', '"a b"', '"/*"', '"//"',
                                '#', '$', '%', '^', '&', '|', '~', '\\', "'", ';', '!', '?', '_', '`', '·', '̀', '‿',
                                ' ', '᠎', '﻿', 'a b', 'if x', 'and﻿', '​', '‌', ' ', '\u0085',
                                '/*', '*/', '/**/', '/***/', '//', '//x\n', '// x\r', '/* a */', '/*/', '/* * / */',
                                'a', 'b', 'x', 'foo', 'äb', 'α', 'q9', 'a-b', 'a - b', 'a+b', 'x+y', 'a.b', 'a . b', "it's", 'foo bar', 'foo  bar', 'a b', 'Total+', 'a+-b',
                                '(', '()', 'function(', 'function (', 'function <', 'function\t\n(', 'function x', 'list<', 'list <', 'list　<', 'list (',
                                'context<', 'range <', 'range(', 'not(', 'not (', 'not x', 'not\t', 'true(', 'true)', 'true,', 'false}', 'false{', 'null%', 'null.x', 'null"'])
GLUE = ['', '', '', ' ', ' ', '\t', '\n', '  ', '　', '\u000b', '\r\n', '/**/', '/* c */', '//c\n', ' // c\n', ' ', ' ']


def gen_adversarial(rng):
    keys = rng.sample(PLAIN_KEYS, rng.randint(0, 4)) + rng.sample(ODD_KEYS, rng.choice([0, 0, 1, 2, 3]))
    n = rng.choice([1, 2, 2, 3, 4, 5, 7])
    text = rng.choice(GLUE)
    for _ in range(n):
        text += rng.choice(FRAGS) + rng.choice(GLUE)
    r = rng.random()
    if r < 0.4:
        sched = []
    elif r < 0.7:
        sched = [rng.choice([0, 0, 1, 2, 4, 8, 6, 12, 15]) for _ in range(n + 2)]
    else:
        sched = [rng.choice([1, 2, 4, 8, 15])] + [0] * rng.randint(0, 3) + [rng.choice([0, 2, 4, 8])]
    return keys, text, sched


# ------------------------------------------------------------------------------------------------ the section

def run_pairs(ctx, cases):
    """cases: dicts with keys, text, sched -> (impl items, model items) per case."""
    reqs = [{'keys': c['keys'], 'cps': cps(c['text']), 'flags': c['sched'], 'limit': len(c['text']) + 2} for c in cases]
    impl = ctx.run_impl('tokens', reqs)
    terms = ['trace %s %s %s' % (coq_keys(c['keys']), coq_list(c['sched']), coq_list(cps(c['text']))) for c in cases]
    model = ctx.run_model(HEADER, terms, shard_size=60, tag='lex')
    return [impl_items(g) for g in impl], [model_items(m) for m in model]


def stream_of(items):
    """kind, texts, position of the tokens (flags and the end marker dropped)."""
    return [it[:3] for it in items if len(it) == 4]


def show(items):
    def tx(x):
        return ''.join(chr(c) for c in x)
    return ' '.join(it[0] + (('(' + ','.join(repr(tx(t)) for t in it[1]) + ')') if it[1] else '') for it in items)


def lexer_section(ctx, c06):
    rng = ctx.rng
    styles = ['tight', 'plain', 'ws', 'comments', 'comments2']
    cases = []
    # directed: the corner the theorem's side conditions are about
    directed = [
        (['a', 'b'], 'a<=\tb', []), (['a', 'b'], 'a<\t=b', []), (['a'], 'a between a and a and a', [0, 0, 2]), (['a'], 'a instance of number or a', [0, 0, 0, 4]),
        (['a'], 'a instance of date and time', [0, 0, 0, 4]), (['a', 'time'], 'a instance of date and time', [0, 0, 0, 4]), ([], '1 + 2 "abc', []),
        ([], '1 + 2 "a\nb"', []), ([], 'for x in y', [0, 8]), ([], 'for in+x in y', [0, 8]), (['a'], 'a + a', []), ([], 'if x', []),
        ([], 'true{', []), ([], 'not (x)', [1]), ([], 'not (x)', []), ([], 'list < x', []), ([], 'date : 1, date(1)', []), (['number'], 'x instance of number', [0, 0, 0, 4]),
    ]
    for keys, text, sched in directed:
        cases.append({'keys': keys, 'text': text, 'sched': sched, 'kind': 'directed'})
    for _ in range(ctx.pick(700, 8000)):
        keys, toks, sched = gen_printable(rng, c06)
        st = rng.choice(styles)
        lead, pieces = lay_printable(rng, c06, toks, st)
        cases.append({'keys': keys, 'text': text_of(lead, pieces), 'sched': sched, 'kind': 'printable', 'style': st, 'toks': toks, 'lead': lead, 'pieces': pieces,
                      'expected': expected_stream(lead, pieces, toks)})
    # systematic: every token kind followed by every kind of gap (tight where the pair allows it, each white space character, a comment)
    # and a few different next tokens
    # every white space character of the lexer (U+1680, U+180E and U+FEFF too, also behind a name or a type name: they end the word since the
    # repair of is_name_start_char, which took them for name characters as well)
    ws_all = [chr(c) for c in [9, 10, 11, 12, 13, 32, 133, 160, 5760, 6158] + list(range(8192, 8204)) + [8232, 8233, 8239, 8287, 12288, 65279]]
    first_gaps = [''] + ws_all + ['/**/', '/* c */', '//c\n', '\t\t', ' \t']
    sys_keys = ['a', 'b', 'iff', 'an']
    nexts = [('b', 'Name', [cps('b')], 'atom'), ('1', 'Numeric', [cps('1'), []], 'atom'), ('(', 'LeftParen', [], ''), ('=', 'Eq', [], ''),
             ('"s"', 'String', [cps('s')], 'atom'), ('.5', 'Numeric', [cps('0'), cps('5')], 'atom'), ('*', 'Mul', [], ''), ('>', 'Gt', [], ''), ('.', 'Dot', [], ''), ('and', 'And', [], 'kw')]
    singles = ([(w, KW_KIND[w], [], 'kw') for w in KW_WS if w not in ('for', 'some', 'every')] + [(w, SYMS[w], [], '') for w in SYMS]
               + [('true', 'Boolean', [cps('true')], 'lit'), ('false', 'Boolean', [cps('false')], 'lit'), ('null', 'Null', [], 'lit'),
                  ('12', 'Numeric', [cps('12'), []], 'atom'), ('1.50', 'Numeric', [cps('1'), cps('50')], 'atom'), ('.5', 'Numeric', [cps('0'), cps('5')], 'atom'),
                  ('"x y"', 'String', [cps('x y')], 'atom'), ('""', 'String', [[]], 'atom'), ('iff', 'Name', [cps('iff')], 'atom'), ('an', 'Name', [cps('an')], 'atom')]
               + [(w, 'BuiltInTypeName', [cps(w)], 'atom') for w in TYPE_WORDS[:6]])
    for t in singles:
        for g in first_gaps:
            for nx in rng.sample(nexts, 3) + [None]:
                if nx is not None and must_ws(t, nx) and (g == '' or g[0] == '/'):
                    continue
                if nx is None and t[3] == 'kw' and g[:1] == '/':
                    continue
                if t[0] == '/' and g[:1] == '/':
                    continue
                if g == '' and nx is not None and t[0] == '/' and nx[0][0] in '/*':
                    continue
                pre = [('of', 'Of', [], 'kw')] if t[1] == 'BuiltInTypeName' else [('between', 'Between', [], 'kw')] if (t[0] == 'and' and rng.random() < 0.5) else [('a', 'Name', [cps('a')], 'atom')]
                toks = pre + [(t[0], 'BetweenAnd' if (t[0] == 'and' and pre[0][0] == 'between') else t[1], t[2], t[3])] + ([nx] if nx else [])
                if nx is not None and nx[0] == 'and' and pre[0][0] == 'between' and t[0] != 'and':
                    toks[-1] = ('and', 'BetweenAnd', [], 'kw')
                sched = [0, 4 if pre[0][0] == 'of' else 2 if pre[0][0] == 'between' else 0, 0]
                pieces = [(pre[0][0], ' '), (t[0], g)] + ([(nx[0], rng.choice(['', ' ']))] if nx else [])
                cases.append({'keys': sys_keys, 'text': text_of('', pieces), 'sched': sched, 'kind': 'printable', 'style': 'systematic', 'toks': toks, 'lead': '', 'pieces': pieces,
                              'expected': expected_stream('', pieces, toks)})
    for _ in range(ctx.pick(900, 10000)):
        keys, text, sched = gen_adversarial(rng)
        cases.append({'keys': keys, 'text': text, 'sched': sched, 'kind': 'adversarial'})
    impl, model = run_pairs(ctx, cases)
    kinds_seen, ends = {}, {}
    wrong, differ = [], 0
    for c, gi, gm in zip(cases, impl, model):
        ctx.evaluations += 1
        ctx.corr_checked += 1
        for it in gi:
            kinds_seen[it[0]] = kinds_seen.get(it[0], 0) + 1
        ends[gi[-1][0]] = ends.get(gi[-1][0], 0) + 1
        if len(gi) > 2:
            ctx.nontrivial.add('lex:' + c['text'])
        bad_impl = c['kind'] == 'printable' and (stream_of(gi) != c['expected'] or gi[-1][0] != 'YyEof')
        if bad_impl:
            wrong.append((c, gi, gm))
        elif gi != gm:
            differ += 1
            ctx.corr_broken('lexer model on `%s` (keys %s, flags %s)' % (c['text'], c['keys'], c['sched']), {'text': c['text'], 'keys': c['keys'], 'sched': c['sched']},
                            show(gi), show(gm))
        elif c['kind'] == 'printable' and len(ctx.samples) < 7 and c['style'] == 'comments' and 3 <= len(c['toks']) <= 6 and len(c['text']) < 80:
            ctx.sample({'text': c['text'], 'tokens': show(gi)})
    # a printable list the real lexer does not give back: shrink (drop tokens with their gaps) and report the text
    for c, gi, gm in sorted(wrong, key=lambda w: len(w[0]['text']))[:4]:
        best = (c, gi, gm)
        for _ in range(8):
            bc = best[0]
            cands = []
            for k in range(len(bc['toks'])):
                toks = bc['toks'][:k] + bc['toks'][k + 1:]
                pieces = bc['pieces'][:k] + bc['pieces'][k + 1:]
                if not toks:
                    continue
                # flags: recomputed the way gen_printable sets them; the expected kinds of `and` and of type names depend on them, so only
                # candidates whose kinds stay consistent are kept
                sched, ok, between, typ = [], True, False, False
                for j, t in enumerate(toks):
                    prev = toks[j - 1][0] if j else None
                    sched.append((2 if prev == 'between' else 0) | (4 if prev == 'of' else 0))
                    between = between or prev == 'between'
                    typ = typ or prev == 'of'
                    if t[1] == 'BetweenAnd':
                        ok, between = ok and between, False
                    elif t[1] == 'And':
                        ok = ok and not between
                    elif t[1] == 'BuiltInTypeName':
                        ok, typ = ok and typ, False
                    elif t[1] == 'Name' and typ:
                        pass
                if ok:
                    cands.append({'keys': bc['keys'], 'text': text_of(bc['lead'], pieces), 'sched': sched, 'kind': 'printable', 'style': bc['style'], 'toks': toks,
                                  'lead': bc['lead'], 'pieces': pieces, 'expected': expected_stream(bc['lead'], pieces, toks)})
            if not cands:
                break
            ci, cm = run_pairs(ctx, cands)
            smaller = [(x, i, m) for x, i, m in zip(cands, ci, cm) if stream_of(i) != x['expected'] or i[-1][0] != 'YyEof']
            if not smaller:
                break
            best = min(smaller, key=lambda w: len(w[0]['text']))
        bc, bi, bm = best
        exp_show = ' '.join(e[0] + (('(' + ','.join(repr(''.join(chr(x) for x in t)) for t in e[1]) + ')') if e[1] else '') for e in bc['expected'])
        ctx.violation('text `%s` (names in scope: %s): the lexer reads the tokens %s; the text was written from the tokens %s with token-preserving layout'
                      % (bc['text'], ', '.join(bc['keys']), show(bi), exp_show),
                      {'text': bc['text'], 'keys': bc['keys'], 'sched': bc['sched'], 'expected': bc['expected'], 'kind': 'lexer'}, impl=show(bi), model=show(bm))
    return {'lexer_texts_compared': len(cases), 'lexer_printable_lists': sum(1 for c in cases if c['kind'] == 'printable'),
            'lexer_adversarial_texts': sum(1 for c in cases if c['kind'] == 'adversarial'), 'lexer_token_kinds_seen': kinds_seen,
            'lexer_stream_ends': ends, 'lexer_model_disagreements': differ, 'lexer_printable_not_given_back': len(wrong)}


# ------------------------------------------------------------------------------------------------ text -> tree, end to end

TEXT_HEADER = (HEADER + 'From DV Require Import C06.LexerText.\n'
               'Definition dec_k (keys : list str) (l : ltoken) : option N :=\n'
               '  match l with\n'
               '  | LName n => match pos_of n keys 0 with Some i => Some (2 * i + 1) | None => None end\n'
               '  | _ => match dec_unary l with Some k => Some (2 * k) | None => None end\n'
               '  end.\n'
               'Definition enc_k (keys : list str) (a : N) : ltoken := if N.odd a then LName (nth_str keys (a / 2)) else enc_unary (a / 2).\n')
BINOPS = ['Or', 'And', 'Eq', 'Nq', 'Lt', 'Le', 'Gt', 'Ge', 'InOp', 'Sub', 'Add', 'Mul', 'Div', 'Exp']
AST_OP = {'InOp': 'In'}
AST_TYPES = ['number', 'string', 'boolean', 'Any', 'Null', 'time']


def gen_spec_tree(rng, depth, nkeys):
    if depth <= 0 or rng.random() < 0.2:
        return 'Atom %d' % (2 * rng.randint(0, nkeys - 1) + 1 if rng.random() < 0.6 else 2 * rng.randint(0, 3))
    r = rng.random()
    sub = lambda: '(' + gen_spec_tree(rng, depth - 1, nkeys) + ')'
    if r < 0.45:
        return 'Bin %s %s %s' % (rng.choice(BINOPS), sub(), sub())
    if r < 0.55:
        return 'Neg %s' % sub()
    if r < 0.70:
        return 'Btw %s %s %s' % (sub(), sub(), sub())
    if r < 0.78:
        return 'Inst %s %d' % (sub(), rng.randint(0, 5))
    if r < 0.86:
        return 'Path %s %d' % (sub(), rng.randint(0, nkeys - 1))
    if r < 0.93:
        return 'Filt %s %s' % (sub(), sub())
    return 'Call %s %s' % (sub(), sub())


def spec_ast(t, keys):
    """Coq tree (parsed term) -> the JSON tree of dv ast."""
    n, a = t.name, t.args
    if n == 'Atom':
        return ['Name', keys[a[0] // 2]] if a[0] % 2 else ['Numeric', '1' * (a[0] // 2 + 1), '']
    if n == 'Bin':
        return [AST_OP.get(a[0].name, a[0].name), spec_ast(a[1], keys), spec_ast(a[2], keys)]
    if n == 'Neg':
        return ['Neg', spec_ast(a[0], keys)]
    if n == 'Btw':
        return ['Between'] + [spec_ast(x, keys) for x in a]
    if n == 'Inst':
        return ['InstanceOf', spec_ast(a[0], keys), ['FeelType', AST_TYPES[a[1]]]]
    if n == 'Path':
        return ['Path', spec_ast(a[0], keys), ['Name', keys[a[1]]]]
    if n == 'Filt':
        return ['Filter', spec_ast(a[0], keys), spec_ast(a[1], keys)]
    return ['FunctionInvocation', spec_ast(a[0], keys), ['PositionalParameters', spec_ast(a[1], keys)]]


def text_section(ctx, c06):
    """parse_text (lexer model with the flag policy, abs, Spec parser) on the text the Coq printer writes for random trees of the operator
    fragment, in both renderings, against the real parser (dv ast): the same tree or both none -- also where the theorem's side condition
    flag_ok fails (lower bound of a between with an `and` in it: the model predicts what the real parser does there)."""
    rng = ctx.rng
    keys = list(c06.NAMES)
    ck = coq_keys(keys)
    terms, n = [], ctx.pick(250, 3000)
    for _ in range(n):
        t = gen_spec_tree(rng, rng.choice([1, 2, 2, 3, 3, 4]), len(keys))
        terms.append('let t := %s in let k := %s in map (fun ts => (flag_ok false ts, unlex (conc_all k (enc_k k) ts), parse_text k (dec_k k) (unlex (conc_all k (enc_k k) ts)))) '
                     '[render_min t; render_full t]' % (t, ck))
    res = ctx.run_model(TEXT_HEADER, terms, shard_size=20, tag='txt')
    flat = [x for r in res for x in r]
    got = ctx.run_impl('ast', [{'bind': c06.BIND, 'e': ''.join(chr(c) for c in text), 'mode': 'expr'} for _, text, _ in flat])
    bad, outside = 0, 0
    for (fok, text, mt), g in zip(flat, got):
        ctx.evaluations += 1
        ctx.corr_checked += 1
        exp = spec_ast(mt.args[0], keys) if (isinstance(mt, App) and mt.name == 'Some') else None
        outside += 0 if fok else 1
        s = ''.join(chr(c) for c in text)
        if len(s) > 12:
            ctx.nontrivial.add('txt:' + s)
        if g.get('ast') != exp:
            bad += 1
            ctx.corr_broken('text-level model (lexer model + Spec parser) on `%s`' % s, {'text': s}, g.get('ast', g.get('err', g)), exp if exp is not None else 'no tree')
    return {'text_level_parsed': len(flat), 'text_level_outside_flag_ok': outside, 'text_level_disagreements': bad}


def replay_lexer(ctx, c):
    ctx.build_harness()
    got = ctx.run_impl('tokens', [{'keys': c['keys'], 'cps': cps(c['text']), 'flags': c['sched'], 'limit': len(c['text']) + 2}])[0]
    items = impl_items(got)
    print('input    :', json.dumps(c['text']), 'keys', c['keys'], 'flags', c['sched'])
    print('lexer    :', show(items))
    print('expected :', ' '.join(e[0] for e in c['expected']))
    fail = stream_of(items) != c['expected'] or items[-1][0] != 'YyEof'
    print('REPRODUCED' if fail else 'not reproduced')
    return 1 if fail else 0
