(* C11 — typed inputs and outputs.  Executable model of
     model-evaluator/src/builders/item_definition.rs       (per-variant input closures, allowed values)
     model-evaluator/src/builders/item_definition_type.rs  (FEEL type of an item definition)
     model-evaluator/src/builders/mod.rs                   (build_variable_evaluator arms, Variable::feel_type)
   on top of the values, types and coercion of C16 (imported, not copied).
   Layers:
     Spec       [conforms], [wconforms], [check]     generic in the simple type, allowed values per collection item
     ImplModel  [eval_item], [var_eval], [idef_type] one function PER COPY of the copy-pasted closures
   Modelling conventions (stated again in props/c11.py):
     - names are numbers; contexts (BTreeMap) are key-ascending association lists; the component list of a
       component type is given key-ascending with unique keys ([wf_idef]) so that the BTreeMap built by the
       closure is the list the model builds;
     - an atom is [VAtom s payload]; the payload of a number is its (natural) value, of a string its identity;
     - allowed values are a list (disjunction) of unary tests: literals, comparisons and intervals over numbers;
     - references are followed with fuel (a cyclic reference chain is C12's subject); out of fuel = null.
   No proofs in this file. *)
From Coq Require Import List NArith Bool Arith.
From DV Require Import C16.Model.
Import ListNotations.

(* the eight simple types an item definition / typeRef may name *)
Inductive prim := PString | PNumber | PBoolean | PDate | PTime | PDateTime | PDtd | PYmd.

Definition prim_simple (p : prim) : simple :=
  match p with
  | PString => SString | PNumber => SNumber | PBoolean => SBoolean | PDate => SDate
  | PTime => STime | PDateTime => SDateTime | PDtd => SDtd | PYmd => SYmd end.

Definition is_atom (p : prim) (v : value) : bool :=
  match v with VAtom s _ => simple_eqb (prim_simple p) s | _ => false end.

Definition is_null (v : value) : bool := match v with VNull => true | _ => false end.

(* ---------------- allowed values: `? in (unary tests)` ---------------- *)
Inductive utest :=
| ULit (s : simple) (n : N)                 (* literal: 5, "s5", true *)
| ULt (n : N) | ULe (n : N) | UGt (n : N) | UGe (n : N)
| UIv (lo : N) (lc : bool) (hi : N) (hc : bool)    (* [lo..hi], (lo..hi], ... *)
| UNull.                                    (* the literal null as one alternative: `? = null`, false for every value that is not null *)

Definition utest_ok (t : utest) (v : value) : bool :=
  match v with
  | VAtom s p =>
      match t with
      | ULit s' n => simple_eqb s s' && N.eqb p n
      | ULt n => simple_eqb s SNumber && N.ltb p n
      | ULe n => simple_eqb s SNumber && N.leb p n
      | UGt n => simple_eqb s SNumber && N.ltb n p
      | UGe n => simple_eqb s SNumber && N.leb n p
      | UIv lo lc hi hc =>
          simple_eqb s SNumber && (if lc then N.leb lo p else N.ltb lo p) && (if hc then N.leb p hi else N.ltb p hi)
      | UNull => false
      end
  | _ => false          (* a list, a context or null is in no test of this language *)
  end.

Definition allowed := option (list utest).

Definition av_ok (av : allowed) (v : value) : bool :=
  match av with None => true | Some ts => existsb (fun t => utest_ok t v) ts end.

(* The list of alternatives as the code evaluates it (feel-evaluator eval_in_list): the alternatives are tried in the order written, the first
   one satisfied answers true, and an alternative that is the literal null ends the scan with the answer null - which check_allowed_values takes
   for `not allowed` (is_true).  av_ok above is the property's reading (any alternative); C11/NullAlt.v relates the two. *)
Fixpoint alts_code (ts : list utest) (v : value) : bool :=
  match ts with
  | [] => false
  | UNull :: _ => false
  | t :: r => utest_ok t v || alts_code r v
  end.
Definition av_ok_code (av : allowed) (v : value) : bool :=
  match av with None => true | Some ts => alts_code ts v end.

(* check_allowed_values *)
Definition check_av (av : allowed) (v : value) : value := if av_ok av v then v else VNull.

(* allowed values of a collection: per item (check_allowed_values_of_items) / pinned commit: on the whole list *)
Definition coll_av (collitem : bool) (av : allowed) (vs : list value) : value :=
  if collitem then (if forallb (av_ok av) vs then VList vs else VNull) else check_av av (VList vs).

(* ---------------- item definitions ---------------- *)
Inductive idef :=
| ISimple (p : prim) (av : allowed)
| IRef (n : N) (av : allowed)
| IComp (fs : list (N * idef)) (av : allowed)
| ICollSimple (p : prim) (av : allowed)
| ICollRef (n : N) (av : allowed)
| ICollComp (fs : list (N * idef)) (av : allowed).

Definition defs := list (N * idef).          (* the top-level item definitions, by name *)

Fixpoint dlookup (n : N) (D : defs) : option idef :=
  match D with [] => None | (k, T) :: r => if N.eqb n k then Some T else dlookup n r end.

Fixpoint vlookup (k : N) (es : list (N * value)) : option value :=
  match es with [] => None | (k', x) :: r => if N.eqb k k' then Some x else vlookup k r end.

Definition vget (k : N) (es : list (N * value)) : value :=
  match vlookup k es with Some x => x | None => VNull end.

(* the loop over component evaluators: every component must be present, each is evaluated on its own *)
Fixpoint comp_loop (ev : idef -> value -> value) (fs : list (N * idef)) (es : list (N * value)) : option (list (N * value)) :=
  match fs with
  | [] => Some []
  | (k, T) :: r =>
      match vlookup k es with
      | Some x => match comp_loop ev r es with Some o => Some ((k, ev T x) :: o) | None => None end
      | None => None
      end
  end.

(* the loop over the items of a collection of component type *)
Fixpoint items_loop (ev : list (N * value) -> option (list (N * value))) (vs : list value) : option (list value) :=
  match vs with
  | [] => Some []
  | VCtx es :: r =>
      match ev es with
      | Some es' => match items_loop ev r with Some o => Some (VCtx es' :: o) | None => None end
      | None => None
      end
  | _ :: _ => None
  end.

(* ============================================================================================
   Generic algorithm, with two switches that name the two places where the code at the pinned
   commit and the property part ways:
     refav    — a referenced type applies its own allowed values            (pinned commit: false)
     collitem — allowed values of a collection are tested per item           (pinned commit: false, the
                whole list was tested, which no test of the language accepts)
   ============================================================================================ *)
Section Generic.
Variables (refav collitem : bool).


Fixpoint gcheck (f : nat) (D : defs) (T : idef) (v : value) {struct f} : value :=
  match f with O => VNull | S f' =>
  match T with
  | ISimple p av => if is_atom p v then check_av av v else VNull
  | IRef n av =>
      match dlookup n D with
      | Some T' => let r := gcheck f' D T' v in if refav then check_av av r else r
      | None => VNull
      end
  | IComp fs av =>
      match v with
      | VCtx es => match comp_loop (gcheck f' D) fs es with Some es' => check_av av (VCtx es') | None => VNull end
      | _ => VNull
      end
  | ICollSimple p av =>
      match v with
      | VList vs => if forallb (is_atom p) vs then coll_av collitem av vs else VNull
      | _ => VNull
      end
  | ICollRef n av =>
      match v with
      | VList vs => match dlookup n D with Some T' => coll_av collitem av (map (gcheck f' D T') vs) | None => VNull end
      | _ => VNull
      end
  | ICollComp fs av =>
      match v with
      | VList vs => match items_loop (comp_loop (gcheck f' D) fs) vs with Some vs' => coll_av collitem av vs' | None => VNull end
      | _ => VNull
      end
  end end.
End Generic.

(* ---------------- Spec ---------------- *)
(* check: "the value if it conforms, else null; component-wise for component types" *)
Definition check : nat -> defs -> idef -> value -> value := gcheck true true.

Fixpoint keys_eqb (a b : list N) : bool :=
  match a, b with [] , [] => true | x :: a', y :: b' => N.eqb x y && keys_eqb a' b' | _, _ => false end.

(* the entries of a context value against the components of a type: same names (in key order), each accepted by c *)
Fixpoint comp_conf (c : idef -> value -> bool) (fs : list (N * idef)) (es : list (N * value)) : bool :=
  match fs, es with
  | [], [] => true
  | (k, T) :: fr, (k', x) :: er => N.eqb k k' && c T x && comp_conf c fr er
  | _, _ => false
  end.

(* gconf false = conforms:  v is a value of the item definition T
   gconf true  = wconforms: the same, except that a component, and an item of a collection of a referenced
                 type, may also be null (the shape of what [check] returns) *)
Fixpoint gconf (loose : bool) (f : nat) (D : defs) (T : idef) (v : value) {struct f} : bool :=
  match f with O => false | S f' =>
  let sub := fun T' x => (loose && is_null x) || gconf loose f' D T' x in
  match T with
  | ISimple p av => is_atom p v && av_ok av v
  | IRef n av => match dlookup n D with Some T' => gconf loose f' D T' v && av_ok av v | None => false end
  | IComp fs av => match v with VCtx es => comp_conf sub fs es && av_ok av v | _ => false end
  | ICollSimple p av => match v with VList vs => forallb (is_atom p) vs && forallb (av_ok av) vs | _ => false end
  | ICollRef n av =>
      match v with
      | VList vs => match dlookup n D with Some T' => forallb (sub T') vs && forallb (av_ok av) vs | None => false end
      | _ => false
      end
  | ICollComp fs av =>
      match v with
      | VList vs => forallb (fun x => match x with VCtx es => comp_conf sub fs es | _ => false end) vs && forallb (av_ok av) vs
      | _ => false
      end
  end end.

Definition conforms : nat -> defs -> idef -> value -> bool := gconf false.
Definition wconforms : nat -> defs -> idef -> value -> bool := gconf true.

(* well-formed: component names strictly ascending (hence unique), everywhere *)
Fixpoint ascending (l : list N) : bool :=
  match l with
  | [] => true
  | x :: r => match r with [] => true | y :: _ => N.ltb x y end && ascending r
  end.

Fixpoint wf_idef (T : idef) : bool :=
  match T with
  | IComp fs _ | ICollComp fs _ => ascending (map fst fs) && forallb (fun e => wf_idef (snd e)) fs
  | _ => true
  end.

Definition wf_defs (D : defs) : bool := forallb (fun e => wf_idef (snd e)) D.

(* no collection type carries allowed values: where the pinned commit agreed with the Spec *)
Fixpoint clean (T : idef) : bool :=
  match T with
  | ISimple _ _ | IRef _ _ => true
  | IComp fs _ => forallb (fun e => clean (snd e)) fs
  | ICollSimple _ av | ICollRef _ av => match av with None => true | Some _ => false end
  | ICollComp fs av => match av with None => forallb (fun e => clean (snd e)) fs | Some _ => false end
  end.

Definition clean_defs (D : defs) : bool := forallb (fun e => clean (snd e)) D.

(* the fuel covers the tree: every path of components and references from T ends within f steps *)
Fixpoint enough (f : nat) (D : defs) (T : idef) {struct f} : bool :=
  match f with O => false | S f' =>
  match T with
  | ISimple _ _ | ICollSimple _ _ => true
  | IRef n _ | ICollRef n _ => match dlookup n D with Some T' => enough f' D T' | None => true end
  | IComp fs _ | ICollComp fs _ => forallb (fun e => enough f' D (snd e)) fs
  end end.

(* ============================================================================================
   ImplModel: item_definition.rs, one function per copy-pasted closure
   ============================================================================================ *)
(* build_simple_type_evaluator: eight closures *)
Definition simple_string (av : allowed) (v : value) : value :=
  match v with VAtom SString _ => check_av av v | _ => VNull end.
Definition simple_number (av : allowed) (v : value) : value :=
  match v with VAtom SNumber _ => check_av av v | _ => VNull end.
Definition simple_boolean (av : allowed) (v : value) : value :=
  match v with VAtom SBoolean _ => check_av av v | _ => VNull end.
Definition simple_date (av : allowed) (v : value) : value :=
  match v with VAtom SDate _ => check_av av v | _ => VNull end.
Definition simple_time (av : allowed) (v : value) : value :=
  match v with VAtom STime _ => check_av av v | _ => VNull end.
Definition simple_date_time (av : allowed) (v : value) : value :=
  match v with VAtom SDateTime _ => check_av av v | _ => VNull end.
Definition simple_dt_duration (av : allowed) (v : value) : value :=
  match v with VAtom SDtd _ => check_av av v | _ => VNull end.
Definition simple_ym_duration (av : allowed) (v : value) : value :=
  match v with VAtom SYmd _ => check_av av v | _ => VNull end.

Definition simple_copy (p : prim) : allowed -> value -> value :=
  match p with
  | PString => simple_string | PNumber => simple_number | PBoolean => simple_boolean | PDate => simple_date
  | PTime => simple_time | PDateTime => simple_date_time | PDtd => simple_dt_duration | PYmd => simple_ym_duration end.

(* build_collection_of_simple_type_evaluator: eight closures, each with its own item loop (early return on a foreign item) *)
Fixpoint loop_string (vs : list value) : option (list value) :=
  match vs with [] => Some [] | x :: r => match x with VAtom SString _ => option_map (cons x) (loop_string r) | _ => None end end.
Fixpoint loop_number (vs : list value) : option (list value) :=
  match vs with [] => Some [] | x :: r => match x with VAtom SNumber _ => option_map (cons x) (loop_number r) | _ => None end end.
Fixpoint loop_boolean (vs : list value) : option (list value) :=
  match vs with [] => Some [] | x :: r => match x with VAtom SBoolean _ => option_map (cons x) (loop_boolean r) | _ => None end end.
Fixpoint loop_date (vs : list value) : option (list value) :=
  match vs with [] => Some [] | x :: r => match x with VAtom SDate _ => option_map (cons x) (loop_date r) | _ => None end end.
Fixpoint loop_time (vs : list value) : option (list value) :=
  match vs with [] => Some [] | x :: r => match x with VAtom STime _ => option_map (cons x) (loop_time r) | _ => None end end.
Fixpoint loop_date_time (vs : list value) : option (list value) :=
  match vs with [] => Some [] | x :: r => match x with VAtom SDateTime _ => option_map (cons x) (loop_date_time r) | _ => None end end.
Fixpoint loop_dt_duration (vs : list value) : option (list value) :=
  match vs with [] => Some [] | x :: r => match x with VAtom SDtd _ => option_map (cons x) (loop_dt_duration r) | _ => None end end.
Fixpoint loop_ym_duration (vs : list value) : option (list value) :=
  match vs with [] => Some [] | x :: r => match x with VAtom SYmd _ => option_map (cons x) (loop_ym_duration r) | _ => None end end.

(* collitem = false: the pinned commit, where the allowed values were tested on the whole list *)
Definition coll_with (loop : list value -> option (list value)) (collitem : bool) (av : allowed) (v : value) : value :=
  match v with
  | VList vs => match loop vs with Some vs' => coll_av collitem av vs' | None => VNull end
  | _ => VNull
  end.
Definition coll_string := coll_with loop_string.
Definition coll_number := coll_with loop_number.
Definition coll_boolean := coll_with loop_boolean.
Definition coll_date := coll_with loop_date.
Definition coll_time := coll_with loop_time.
Definition coll_date_time := coll_with loop_date_time.
Definition coll_dt_duration := coll_with loop_dt_duration.
Definition coll_ym_duration := coll_with loop_ym_duration.

Definition coll_copy (p : prim) : bool -> allowed -> value -> value :=
  match p with
  | PString => coll_string | PNumber => coll_number | PBoolean => coll_boolean | PDate => coll_date
  | PTime => coll_time | PDateTime => coll_date_time | PDtd => coll_dt_duration | PYmd => coll_ym_duration end.

(* build_item_definition_evaluator and the closures of the four remaining variants.
   refav = false: the pinned commit, where build_referenced_type_evaluator did not receive av_evaluator;
   collitem = false: the pinned commit, where the collection evaluators called check_allowed_values on the whole list
   (now check_allowed_values_of_items). *)
Fixpoint eval_item_gen (refav collitem : bool) (f : nat) (D : defs) (T : idef) (v : value) {struct f} : value :=
  match f with O => VNull | S f' =>
  match T with
  | ISimple p av => simple_copy p av v
  | IRef n av =>                                            (* build_referenced_type_evaluator *)
      match dlookup n D with
      | Some T' => if refav then check_av av (eval_item_gen refav collitem f' D T' v) else eval_item_gen refav collitem f' D T' v
      | None => VNull
      end
  | IComp fs av =>                                          (* build_component_type_evaluator *)
      match v with
      | VCtx es => match comp_loop (eval_item_gen refav collitem f' D) fs es with Some es' => check_av av (VCtx es') | None => VNull end
      | _ => VNull
      end
  | ICollSimple p av => coll_copy p collitem av v
  | ICollRef n av =>                                        (* build_collection_of_referenced_type_evaluator *)
      match v with
      | VList vs =>
          match dlookup n D with
          | Some T' => coll_av collitem av (map (eval_item_gen refav collitem f' D T') vs)
          | None => VNull
          end
      | _ => VNull
      end
  | ICollComp fs av =>                                      (* build_collection_of_component_type_evaluator *)
      match v with
      | VList vs =>
          match items_loop (comp_loop (eval_item_gen refav collitem f' D) fs) vs with
          | Some vs' => coll_av collitem av vs'
          | None => VNull
          end
      | _ => VNull
      end
  end end.

Definition eval_item := eval_item_gen true true.
Definition eval_item_orig := eval_item_gen false false.

(* ---------------- build_variable_evaluator (mod.rs): the typeRef of an input data variable ---------------- *)
Inductive tref := RNone | RPrim (p : prim) | RNamed (n : N).

Definition var_string (x : value) : value := match x with VAtom SString _ => x | _ => VNull end.
Definition var_number (x : value) : value := match x with VAtom SNumber _ => x | _ => VNull end.
Definition var_boolean (x : value) : value := match x with VAtom SBoolean _ => x | _ => VNull end.
Definition var_date (x : value) : value := match x with VAtom SDate _ => x | _ => VNull end.
Definition var_time (x : value) : value := match x with VAtom STime _ => x | _ => VNull end.
Definition var_date_time (x : value) : value := match x with VAtom SDateTime _ => x | _ => VNull end.
Definition var_dt_duration (x : value) : value := match x with VAtom SDtd _ => x | _ => VNull end.
Definition var_ym_duration (x : value) : value := match x with VAtom SYmd _ => x | _ => VNull end.

Definition var_copy (p : prim) : value -> value :=
  match p with
  | PString => var_string | PNumber => var_number | PBoolean => var_boolean | PDate => var_date
  | PTime => var_time | PDateTime => var_date_time | PDtd => var_dt_duration | PYmd => var_ym_duration end.

(* the value bound to the input variable `name`, given the whole input context *)
Definition var_eval_gen (refav collitem : bool) (f : nat) (D : defs) (name : N) (r : tref) (input : value) : value :=
  match input with
  | VCtx es =>
      match vlookup name es with
      | Some x =>
          match r with
          | RNone => x
          | RPrim p => var_copy p x
          | RNamed n => match dlookup n D with Some T => eval_item_gen refav collitem f D T x | None => VNull end
          end
      | None => VNull
      end
  | _ => VNull
  end.
Definition var_eval := var_eval_gen true true.
Definition var_eval_orig := var_eval_gen false false.

(* Spec of the input side *)
Definition input_spec (f : nat) (D : defs) (name : N) (r : tref) (input : value) : value :=
  match input with
  | VCtx es =>
      match vlookup name es with
      | Some x =>
          match r with
          | RNone => x
          | RPrim p => if is_atom p x then x else VNull
          | RNamed n => match dlookup n D with Some T => check f D T x | None => VNull end
          end
      | None => VNull
      end
  | _ => VNull
  end.

(* ---------------- item_definition_type.rs: the FEEL type of an item definition ---------------- *)
Definition type_simple_copy (p : prim) : option ftype :=
  match p with
  | PString => Some (TS SString) | PNumber => Some (TS SNumber) | PBoolean => Some (TS SBoolean) | PDate => Some (TS SDate)
  | PTime => Some (TS STime) | PDateTime => Some (TS SDateTime) | PDtd => Some (TS SDtd) | PYmd => Some (TS SYmd) end.

Definition type_coll_copy (p : prim) : option ftype :=
  match p with
  | PString => Some (TList (TS SString)) | PNumber => Some (TList (TS SNumber)) | PBoolean => Some (TList (TS SBoolean))
  | PDate => Some (TList (TS SDate)) | PTime => Some (TList (TS STime)) | PDateTime => Some (TList (TS SDateTime))
  | PDtd => Some (TList (TS SDtd)) | PYmd => Some (TList (TS SYmd)) end.

(* entries of a component whose type cannot be determined are left out of the context type *)
Fixpoint comp_types (ty : idef -> option ftype) (fs : list (N * idef)) : list (N * ftype) :=
  match fs with
  | [] => []
  | (k, T) :: r => match ty T with Some t => (k, t) :: comp_types ty r | None => comp_types ty r end
  end.

Fixpoint idef_type (f : nat) (D : defs) (T : idef) {struct f} : option ftype :=
  match f with O => None | S f' =>
  match T with
  | ISimple p _ => type_simple_copy p
  | IRef n _ => match dlookup n D with Some T' => idef_type f' D T' | None => None end
  | IComp fs _ => Some (TCtx (comp_types (idef_type f' D) fs))
  | ICollSimple p _ => type_coll_copy p
  | ICollRef n _ => match dlookup n D with Some T' => option_map TList (idef_type f' D T') | None => None end
  | ICollComp fs _ => Some (TList (TCtx (comp_types (idef_type f' D) fs)))
  end end.

(* Variable::feel_type *)
Definition var_type (f : nat) (D : defs) (r : tref) : ftype :=
  match r with
  | RNone => TS SAny
  | RPrim p => TS (prim_simple p)
  | RNamed n => match dlookup n D with
                | Some T => match idef_type f D T with Some t => t | None => TS SAny end
                | None => TS SAny end
  end.

(* output side: decision.rs:181 / model_evaluator.rs:213 — the result coerced to the type of the output variable *)
Definition output_value (f : nat) (D : defs) (r : tref) (result : value) : value := coerced (var_type f D r) result.
