(* C03 — decision tables return what their hit policy prescribes: property theorems only.
   Proofs are in C03/Proofs.v and C03/Audit.v; the models in C03/Model.v (Spec: sat, hits, dt_spec; ImplModel: in_test, matching,
   dt_impl = dt_impl_gen false false = decision_table.rs + builders.rs AS THEY ARE NOW, dt_impl_orig = the pinned commit,
   dt_impl_nl = the code if the literal null were handled as a unary test) and C03/Spec2.v (the code's answer for an entry said
   with the Spec's sat_item; `precedes`, the order of output-value priority as a relation).
   Hypotheses used below, all boolean and all evaluated by the check for every generated case:
     wf t          at least one output clause, every rule has one entry per input and per output clause, several output clauses
                   are named with distinct names;
     in_scope t xs no literal `null` in an input entry, in allowed input values or in output values (known finding
                   null-literal-entry) and one input value per input clause.  NOTHING is asked of the input values: null inputs and
                   values of another kind than the literals of an entry are inside;
     agreeing t xs weaker than in_scope: null literals may occur where the evaluation of (t, xs) is not affected by them. *)
From Coq Require Import List ZArith NArith Bool Permutation Sorted.
From DV Require Import C03.Model C03.Proofs C03.Spec2 C03.Audit C03.LinkC01.
Import ListNotations.

(* headline: for every well-shaped table without null literal and EVERY input tuple (one value per input clause; null values,
   values of any kind) the algorithm of the code returns what the declarative hit-policy Spec prescribes
   (all 11 policies, any number of inputs, outputs, rules) *)
Theorem C03_policy_refines : forall t xs, wf t = true -> in_scope t xs = true -> dt_impl t xs = dt_spec t xs.
Proof. exact policy_refines. Qed.

(* the same under the weakest condition we state: every entry that the evaluation of (t, xs) looks at is answered as the Spec
   answers it (C03_entry_agrees_iff says exactly when that is), no null among the output values *)
Theorem C03_policy_refines_agreeing : forall t xs, wf t = true -> agreeing t xs = true -> dt_impl t xs = dt_spec t xs.
Proof. exact policy_refines_agreeing. Qed.

Theorem C03_in_scope_agreeing : forall t xs, wf t = true -> in_scope t xs = true -> agreeing t xs = true.
Proof. exact in_scope_agreeing. Qed.

(* outside the hypotheses the two differ (witnesses): a null literal that is reached; more values than input clauses *)
Theorem C03_scope_hypotheses_needed_refuted :
  (wf t_nullcut = true /\ in_scope t_nullcut [ANum 1%Z] = false /\ agreeing t_nullcut [ANum 1%Z] = true /\
   dt_impl t_nullcut [ANum 1%Z] = OOne (RAtom (ANum 7))) /\
  (agreeing t_nullcut [ANum 2%Z] = false /\ dt_spec t_nullcut [ANum 2%Z] = OOne (RAtom (ANum 7)) /\ dt_impl t_nullcut [ANum 2%Z] = onull /\
   agreeing t_nullcut [ANull] = false /\ dt_spec t_nullcut [ANull] = OOne (RAtom (ANum 7)) /\ dt_impl t_nullcut [ANull] = onull) /\
  (agreeing t_nullcut [ANum 3%Z] = true /\ dt_impl t_nullcut [ANum 3%Z] = onull /\ dt_spec t_nullcut [ANum 3%Z] = onull) /\
  (wf t_dash = true /\ arity_ok t_dash [ANum 1%Z; ANum 2%Z] = false /\
   dt_impl t_dash [ANum 1%Z; ANum 2%Z] = OOne (RAtom (ANum 7)) /\ dt_spec t_dash [ANum 1%Z; ANum 2%Z] = onull).
Proof. exact scope_hypotheses_needed. Qed.

(* ---------------------------------------------------------------- input entries: the code as it is *)
(* an entry without the literal null (`-`, literals, comparisons, intervals, lists of them, not(...)): the three-valued evaluation
   of the current code decides satisfaction, for EVERY value — null and values of another kind included; it never answers null *)
Theorem C03_entry_satisfied : forall x u, utest_nonnull u = true ->
  in_test false false (in_neg_list_gen false) x u = of_bool (sat x u).
Proof. exact entry_satisfied. Qed.

(* EVERY entry, the literal null included: the code reads a list of tests up to its first null literal — true when a test before
   it is satisfied, else false when there is no null literal and null when there is one; not(...) negates true / false *)
Theorem C03_entry_code_exact : forall x u, in_test false false (in_neg_list_gen false) x u = code_in_test x u.
Proof. exact in_test_code_exact. Qed.

(* exactly on which (value, entry) pairs `the rule's entry matches` is what the Spec says *)
Theorem C03_entry_agrees_iff : forall x u,
  is_tt (in_test false false (in_neg_list_gen false) x u) = sat x u <-> utest_agrees x u = true.
Proof. exact entry_agrees_iff. Qed.

(* what `satisfied` means (Spec), case by case: `-`; a literal (the equal value); a comparison / an interval (only values of the
   kind of the number / string endpoints); a list (one of its tests); not(...) *)
Theorem C03_sat_cases : forall x,
  sat x UAny = true /\
  (forall a, sat x (UPos [ILit a]) = true <-> x = a) /\
  (forall o a, sat x (UPos [ICmp o a]) = true <->
     (exists v w, x = ANum v /\ a = ANum w /\ match o with CLt => v < w | CLe => v <= w | CGt => v > w | CGe => v >= w end)%Z \/
     (exists v w, x = AStr v /\ a = AStr w /\ match o with CLt => v < w | CLe => v <= w | CGt => v > w | CGe => v >= w end)%N) /\
  (forall lo lc hi hc, sat x (UPos [IRange lo lc hi hc]) = true <->
     (exists v l h, x = ANum v /\ lo = ANum l /\ hi = ANum h /\ (if lc then l <= v else l < v) /\ (if hc then v <= h else v < h))%Z \/
     (exists v l h, x = AStr v /\ lo = AStr l /\ hi = AStr h /\ (if lc then l <= v else l < v) /\ (if hc then v <= h else v < h))%N) /\
  (forall l, sat x (UPos l) = true <-> exists i, In i l /\ sat x (UPos [i]) = true) /\
  (forall l, sat x (UNeg l) = negb (sat x (UPos l))).
Proof. exact sat_cases. Qed.

(* a null input value satisfies `-` and the literal null, no other test; hence every not(...) without the literal null
   (interpretive choice shared by Spec and code: not(< 5) holds of null because `< 5` does not) *)
Theorem C03_sat_null_input :
  sat ANull UAny = true /\
  (forall i, sat_item ANull i = negb (item_nonnull i)) /\
  (forall l, sat ANull (UPos l) = negb (forallb item_nonnull l)) /\
  (forall l, sat ANull (UNeg l) = forallb item_nonnull l).
Proof. exact sat_null_input. Qed.

(* KNOWN FINDING null-literal-entry (known_findings.txt), a theorem about the model of the CURRENT code: the entries `null` and
   not(null) match no value; a list of tests, negated or not, none of whose tests before its first null literal is satisfied is
   answered with null, so the rule does not match whatever follows the null literal *)
Theorem C03_null_literal_entry_never_matches :
  (forall x, in_test false false (in_neg_list_gen false) x (UPos [ILit ANull]) = TN) /\
  (forall x, in_test false false (in_neg_list_gen false) x (UNeg [ILit ANull]) = TN) /\
  (forall x l1 l2, existsb (sat_item x) l1 = false ->
     in_test false false (in_neg_list_gen false) x (UPos (l1 ++ ILit ANull :: l2)) = TN /\
     in_test false false (in_neg_list_gen false) x (UNeg (l1 ++ ILit ANull :: l2)) = TN) /\
  (forall x ic l1 l2 xs ics es, existsb (sat_item x) l1 = false ->
     rule_matches false false (x :: xs) (ic :: ics) (UPos (l1 ++ ILit ANull :: l2) :: es) = false /\
     rule_matches false false (x :: xs) (ic :: ics) (UNeg (l1 ++ ILit ANull :: l2) :: es) = false).
Proof. exact null_literal_entry_never_matches. Qed.

(* ... the intended behaviour, i.e. the Spec the finding violates: `null` is satisfied by the null value and only by it,
   not(null) by every other value, and the tests behind a null literal count *)
Theorem C03_null_literal_spec :
  (forall x, sat x (UPos [ILit ANull]) = true <-> x = ANull) /\
  (forall x, sat x (UNeg [ILit ANull]) = true <-> x <> ANull) /\
  (forall x l1 l2, sat x (UPos (l1 ++ ILit ANull :: l2)) = existsb (sat_item x) l1 || atom_eqb x ANull || existsb (sat_item x) l2).
Proof. exact null_literal_spec. Qed.

(* ... the witness at table level (run against the real code by the check), and the repaired algorithm *)
Theorem C03_null_literal_known :
  wf t_nulllit = true /\ arity_ok t_nulllit [ANull] = true /\ arity_ok t_nulllit [ANum 1%Z] = true /\ no_null_lits t_nulllit = false /\
  dt_spec t_nulllit [ANull] = OMany [RAtom (ANum 7); RAtom (ANum 9)] /\ dt_impl t_nulllit [ANull] = onull /\
  dt_spec t_nulllit [ANum 1%Z] = OMany [RAtom (ANum 8); RAtom (ANum 9)] /\ dt_impl t_nulllit [ANum 1%Z] = OMany [RAtom (ANum 9)] /\
  dt_impl_nl t_nulllit [ANull] = dt_spec t_nulllit [ANull] /\ dt_impl_nl t_nulllit [ANum 1%Z] = dt_spec t_nulllit [ANum 1%Z].
Proof. exact null_literal_known. Qed.

(* with the literal null handled as a test (a repair that was NOT made) both hypotheses about null disappear *)
Theorem C03_entry_satisfied_if_null_literal_handled : forall x u, in_test false true in_neg_list x u = of_bool (sat x u).
Proof. exact in_test_sat. Qed.

Theorem C03_policy_refines_if_null_literal_handled : forall t xs, wf t = true -> length xs = length (t_inputs t) ->
  dt_impl_nl t xs = dt_spec t xs.
Proof. exact policy_refines_nl. Qed.

(* the rules the code collects are exactly the rules whose every entry is satisfied, in rule order *)
Theorem C03_matching_exact : forall t xs, wf t = true -> in_scope t xs = true ->
  matching false false t xs = map (eval_rule false false t xs) (filter (rule_sat t xs) (t_rules t)).
Proof. exact matching_exact. Qed.

(* ---------------------------------------------------------------- the hit policies, sentence by sentence *)
Theorem C03_first_is_least_index : forall t xs, wf t = true -> in_scope t xs = true -> t_policy t = PFirst ->
  forall h hs, hits t xs = h :: hs ->
  dt_impl t xs = OOne (spec_out t h) /\
  exists before after, t_rules t = before ++ h :: after /\ rule_sat t xs h = true /\ forall r, In r before -> rule_sat t xs r = false.
Proof. exact first_is_least_index. Qed.

Theorem C03_collect_is_filter_map_in_rule_order : forall t xs, wf t = true -> in_scope t xs = true ->
  t_policy t = PRuleOrder \/ t_policy t = PCollect AList -> hits t xs <> [] ->
  dt_impl t xs = OMany (map (spec_out t) (filter (rule_sat t xs) (t_rules t))).
Proof. exact collect_in_rule_order. Qed.

(* the comparator of the Spec (cmp_keys on the ranks) is the relation `precedes`: lexicographic over the output clauses, per clause
   the position of the output in the clause's output values, an unlisted output after every listed one *)
Theorem C03_precedes_is_lexicographic : forall a b, cmp_keys a b = Lt <-> lex_lt a b.
Proof. exact precedes_iff_lt. Qed.

(* PRIORITY: the output of the matching rule that precedes every matching rule before it and is preceded by no matching rule
   after it (no matching output has priority over it; among equals the first rule); there is exactly one such rule *)
Theorem C03_priority_spec : forall t xs, wf t = true -> in_scope t xs = true -> t_policy t = PPriority -> hits t xs <> [] ->
  exists w, priority_winner t (hits t xs) w /\ dt_impl t xs = OOne (spec_out t w).
Proof. exact priority_spec. Qed.

Theorem C03_priority_winner_unique : forall t hs w1 w2, priority_winner t hs w1 -> priority_winner t hs w2 -> w1 = w2.
Proof. exact priority_winner_unique. Qed.

(* OUTPUT ORDER: the matching outputs rearranged so that none stands behind one it precedes; outputs of equal priority keep
   their rule order *)
Theorem C03_output_order_spec : forall t xs, wf t = true -> in_scope t xs = true -> t_policy t = POutputOrder -> hits t xs <> [] ->
  exists l, dt_impl t xs = OMany (map (spec_out t) l) /\ Permutation (hits t xs) l /\
    StronglySorted (fun x y => ~ precedes t y x) l /\
    forall k, filter (fun r => key_eqb (key t r) k) l = filter (fun r => key_eqb (key t r) k) (hits t xs).
Proof. exact output_order_spec. Qed.

Theorem C03_output_order_perm_sorted_stable : forall t l,
  Permutation l (by_priority t l) /\
  Sorted (fun x y => cmp_keys (key t x) (key t y) <> Gt) (by_priority t l) /\
  forall k, filter (fun r => key_eqb (key t r) k) (by_priority t l) = filter (fun r => key_eqb (key t r) k) l.
Proof. exact output_order_perm_sorted_stable. Qed.

Theorem C03_output_order_result : forall t xs, wf t = true -> in_scope t xs = true -> t_policy t = POutputOrder -> hits t xs <> [] ->
  dt_impl t xs = OMany (map (spec_out t) (by_priority t (hits t xs))).
Proof. exact output_order_result. Qed.

Theorem C03_priority_result : forall t xs, wf t = true -> in_scope t xs = true -> t_policy t = PPriority ->
  forall h hs, hits t xs = h :: hs ->
  exists top rest, by_priority t (h :: hs) = top :: rest /\ dt_impl t xs = OOne (spec_out t top).
Proof. exact priority_result. Qed.

Theorem C03_unique_any : forall t xs, wf t = true -> in_scope t xs = true ->
  (t_policy t = PUnique ->
     (forall h, hits t xs = [h] -> dt_impl t xs = OOne (spec_out t h)) /\
     (2 <= length (hits t xs) -> dt_impl t xs = onull)) /\
  (t_policy t = PAny -> forall h hs, hits t xs = h :: hs ->
     ((forall r, In r hs -> spec_out t r = spec_out t h) -> dt_impl t xs = OOne (spec_out t h)) /\
     ((exists r, In r hs /\ spec_out t r <> spec_out t h) -> dt_impl t xs = onull)).
Proof. exact unique_any. Qed.

Theorem C03_count_length : forall t xs, wf t = true -> in_scope t xs = true -> t_policy t = PCollect ACount -> hits t xs <> [] ->
  dt_impl t xs = OOne (RAtom (ANum (Z.of_nat (length (filter (rule_sat t xs) (t_rules t)))))).
Proof. exact count_length. Qed.

Theorem C03_aggregates : forall t xs, wf t = true -> in_scope t xs = true -> length (t_outputs t) = 1 -> hits t xs <> [] ->
  (t_policy t = PCollect ASum -> dt_impl t xs = OOne (RAtom (spec_sum (map (single_out t) (hits t xs))))) /\
  (t_policy t = PCollect AMin -> dt_impl t xs = OOne (RAtom (spec_min (map (single_out t) (hits t xs))))) /\
  (t_policy t = PCollect AMax -> dt_impl t xs = OOne (RAtom (spec_max (map (single_out t) (hits t xs))))).
Proof. exact aggregates. Qed.

Theorem C03_no_hit_default : forall t xs, wf t = true -> in_scope t xs = true -> hits t xs = [] ->
  (forall a, t_policy t <> PCollect a \/ length (t_outputs t) = 1 \/ a = AList \/ a = ACount) ->
  dt_impl t xs = OOne (spec_default t).
Proof. exact no_hit_default. Qed.

(* the default in the words of the property: the default output entry, null when none is defined; several output clauses: the
   context of the default entries keyed by the component names (null for a clause without one), null when no clause defines one *)
Theorem C03_default_spec : forall t, wf t = true ->
  (forall oc, t_outputs t = [oc] -> spec_default t = RAtom (match o_default oc with Some d => d | None => ANull end)) /\
  (1 < length (t_outputs t) -> (forall oc, In oc (t_outputs t) -> o_default oc = None) -> spec_default t = RAtom ANull) /\
  (1 < length (t_outputs t) -> (exists oc, In oc (t_outputs t) /\ o_default oc <> None) -> exists es, spec_default t = RCtx es /\
     forall j oc k, nth_error (t_outputs t) j = Some oc -> o_name oc = Some k ->
       ctx_get k es = Some (match o_default oc with Some d => d | None => ANull end)).
Proof. exact default_spec_words. Qed.

(* the output of one rule: the single (filtered) output entry, or — several output clauses — the context whose component named
   after a clause is that clause's (filtered) output entry; an entry outside the clause's output values is null *)
Theorem C03_rule_output_spec : forall t r, wf t = true -> In r (t_rules t) ->
  (forall oc, t_outputs t = [oc] -> spec_out t r = RAtom (out_filter (o_values oc) (hd ANull (r_out r)))) /\
  (1 < length (t_outputs t) -> exists es, spec_out t r = RCtx es /\
     forall j oc a k, nth_error (t_outputs t) j = Some oc -> nth_error (r_out r) j = Some a -> o_name oc = Some k ->
       ctx_get k es = Some (out_filter (o_values oc) a)).
Proof. exact rule_output_spec. Qed.

Theorem C03_compound_keyed_by_names : forall names vals k v,
  NoDup names -> length names = length vals -> In (k, v) (combine names vals) -> ctx_get k (mk_ctx names vals) = Some v.
Proof. exact compound_keyed_by_names. Qed.

Theorem C03_no_crash_if_well_shaped : forall t xs, wf t = true -> in_scope t xs = true ->
  dt_impl t xs <> OCrash /\ dt_impl t xs <> OBuildCrash.
Proof. exact no_crash_if_well_shaped. Qed.

Theorem C03_crash_if_ill_shaped :
  wf t_noout = false /\ dt_impl t_noout [ANum 1%Z] = OCrash /\ wf t_short = false /\ dt_impl t_short [ANum 1%Z; ANum 2%Z] = OBuildCrash.
Proof. exact crash_if_ill_shaped. Qed.

(* the code at the pinned commit violated the property (repaired by fix: commits in /repo) *)
Theorem C03_orig_negated_interval_refuted :
  wf t_neg = true /\ in_scope t_neg [ANum 9%Z] = true /\
  dt_spec t_neg [ANum 9%Z] = OOne (RAtom (ANum 7)) /\ dt_impl_orig t_neg [ANum 9%Z] = onull /\ dt_impl t_neg [ANum 9%Z] = OOne (RAtom (ANum 7)).
Proof. exact orig_negated_interval_refuted. Qed.

Theorem C03_orig_priority_flattened_refuted :
  wf t_prio = true /\ in_scope t_prio [ANum 0%Z] = true /\
  dt_spec t_prio [ANum 0%Z] = OMany [RCtx [(0%N, ANum 1); (1%N, ANum 2)]; RCtx [(0%N, ANum 1); (1%N, ANum 1)]] /\
  dt_impl_orig t_prio [ANum 0%Z] = OMany [RCtx [(0%N, ANum 1); (1%N, ANum 1)]; RCtx [(0%N, ANum 1); (1%N, ANum 2)]] /\
  dt_impl t_prio [ANum 0%Z] = dt_spec t_prio [ANum 0%Z].
Proof. exact orig_priority_flattened_refuted. Qed.

Theorem C03_orig_default_compound_refuted :
  wf t_dflt = true /\ in_scope t_dflt [ANum 0%Z] = true /\ hits t_dflt [ANum 0%Z] = [] /\
  dt_spec t_dflt [ANum 0%Z] = OOne (RCtx [(0%N, AStr 3); (1%N, AStr 5)]) /\
  dt_impl_orig t_dflt [ANum 0%Z] = onull /\ dt_impl t_dflt [ANum 0%Z] = dt_spec t_dflt [ANum 0%Z].
Proof. exact orig_default_compound_refuted. Qed.

Theorem C03_orig_dash_null_refuted :
  wf t_dash = true /\ in_scope t_dash [ANull] = true /\
  dt_spec t_dash [ANull] = OOne (RAtom (ANum 7)) /\ dt_impl_orig t_dash [ANull] = onull /\ dt_impl t_dash [ANull] = OOne (RAtom (ANum 7)).
Proof. exact orig_dash_null_refuted. Qed.

Example C03_nonvacuous :
  wf t_ex = true /\ in_scope t_ex [ANum 5%Z; AStr 2] = true /\ length (hits t_ex [ANum 5%Z; AStr 2]) = 3 /\
  dt_impl t_ex [ANum 5%Z; AStr 2] = OOne (RCtx [(0%N, AStr 5); (1%N, ANum 3)]).
Proof. exact nonvacuous. Qed.

(* the widened scope is inhabited by what the former hypothesis `typed` excluded: a null input value and a value of another kind
   than the literals, on the same table (rule 2's first entry is a not(...) over an interval: satisfied by null and by a string) *)
Example C03_nonvacuous_untyped :
  in_scope t_ex [ANull; AStr 2] = true /\ typed t_ex [ANull; AStr 2] = false /\ length (hits t_ex [ANull; AStr 2]) = 1 /\
  dt_impl t_ex [ANull; AStr 2] = dt_spec t_ex [ANull; AStr 2] /\ dt_impl t_ex [ANull; AStr 2] = OOne (RCtx [(0%N, AStr 4); (1%N, ANum 2)]) /\
  in_scope t_ex [AStr 7; AStr 2] = true /\ typed t_ex [AStr 7; AStr 2] = false /\
  dt_impl t_ex [AStr 7; AStr 2] = OOne (RCtx [(0%N, AStr 4); (1%N, ANum 2)]) /\
  priority_winner t_ex (hits t_ex [ANum 5%Z; AStr 2]) (nth 2 (t_rules t_ex) (Build_rule [] [])).
Proof. exact nonvacuous_untyped. Qed.

(* LINK TO C01 (C03/LinkC01.v): the unary-test evaluation of this model IS the FEEL `in` operator of the evaluator model
   coq/C01/Syntax.v (in_tests_eval = eval_in_list over Value::ExpressionList, written independently from the same
   builders.rs), for EVERY entry (`-`, list of tests, not(...)) and EVERY input value (null and ill-kinded included),
   three-valued: TT/TF/TN = true/false/null.  Numbers z |-> VNum (nenc z), strings s |-> VStr (senc s) for any order
   embeddings (instances: of_Z z 0, one-code-point strings).  F = C01.Syntax; feel_in adds the two arms of build_in C01
   does not model (Irrelevant => true, NegatedCommaList => negation of eval_in_list). *)
Theorem C03_matching_is_feel_in : forall nenc senc, num_embedding nenc -> str_embedding senc -> forall x u,
  feel_in (tr_atom nenc senc x) (tr_utest nenc senc u) = tv_val (in_test false false (in_neg_list_gen false) x u) /\
  is_tt (in_test false false (in_neg_list_gen false) x u) = F.is_true (feel_in (tr_atom nenc senc x) (tr_utest nenc senc u)).
Proof. intros nenc senc Hn Hs x u. split; [exact (in_test_is_feel_in nenc senc Hn Hs x u) | exact (entry_satisfied_is_feel_in nenc senc Hn Hs x u)]. Qed.

(* an entry under allowed input values is And(In(x, values), In(x, entry)); a rule matches iff every such evaluator is true *)
Theorem C03_rule_matches_is_feel_in : forall nenc senc, num_embedding nenc -> str_embedding senc ->
  (forall x ic e, entry_true false false x ic e = F.is_true (feel_entry nenc senc x ic e)) /\
  (forall t xs r, matches (eval_rule false false t xs r) = feel_rule nenc senc xs (t_inputs t) (r_in r)).
Proof. intros nenc senc Hn Hs. split; [exact (entry_true_is_feel nenc senc Hn Hs) | exact (matches_is_feel nenc senc Hn Hs)]. Qed.

(* the same through C01's evaluator of expressions (any enumeration of iteration tuples, any fuel >= 2, any scope
   binding the input name): `x in (t1, …, tn)` is true exactly when the entry t1, …, tn is satisfied.  For ONE test C01's
   EIn takes build_in's scalar arm, where a comparison / interval against null is null instead of false: satisfaction agrees,
   the three-valued answer does not (C03_matching_is_feel_in_nonvacuous, last line but one). *)
Theorem C03_feel_in_expression : forall nenc senc, num_embedding nenc -> str_embedding senc -> forall cartf f St n x l,
  F.lookup n St = Some (tr_atom nenc senc x) ->
  F.is_true (FS.eval cartf (S (S f)) St (F.EIn (F.EName n) (map (tr_item nenc senc) l))) = is_tt (in_list_gen false x l).
Proof. exact eval_in_is_in_list. Qed.

Example C03_matching_is_feel_in_nonvacuous :
  num_embedding nenc0 /\ str_embedding senc0 /\
  (feel_in (tr_atom nenc0 senc0 (ANum 7)) (tr_utest nenc0 senc0 (UPos [ILit (ANum 3); IRange (ANum 5) true (ANum 9) false])) = F.VBool true /\
   feel_in (tr_atom nenc0 senc0 (ANum 9)) (tr_utest nenc0 senc0 (UPos [ILit (ANum 3); IRange (ANum 5) true (ANum 9) false])) = F.VBool false /\
   feel_in (tr_atom nenc0 senc0 (ANum (-4))) (tr_utest nenc0 senc0 (UNeg [ICmp CGe (ANum (-3)); ILit (ANum 0)])) = F.VBool true /\
   feel_in (tr_atom nenc0 senc0 (AStr 4)) (tr_utest nenc0 senc0 (UPos [ICmp CGt (AStr 4); ILit (AStr 4)])) = F.VBool true /\
   feel_in (tr_atom nenc0 senc0 (AStr 4)) (tr_utest nenc0 senc0 (UPos [ILit ANull; ILit (AStr 4)])) = F.VNull /\
   feel_in (tr_atom nenc0 senc0 ANull) (tr_utest nenc0 senc0 UAny) = F.VBool true /\
   feel_in (tr_atom nenc0 senc0 ANull) (tr_utest nenc0 senc0 (UPos [ICmp CLt (ANum 5); ILit (ANum 1)])) = F.VBool false /\
   feel_in (tr_atom nenc0 senc0 (ABool true)) (tr_utest nenc0 senc0 (UNeg [ILit (ABool false)])) = F.VBool true /\
   F.is_true (FS.eval_spec 5 [[(1%N, F.VNum (Dec.of_Z 7 0))]]
      (F.EIn (F.EName 1%N) (map (tr_item nenc0 senc0) [ILit (ANum 3); IRange (ANum 5) true (ANum 9) false]))) = true) /\
  (F.in_eval (tr_atom nenc0 senc0 ANull) (tr_item_v nenc0 senc0 (ICmp CLt (ANum 5))) = F.VNull /\
   feel_in (tr_atom nenc0 senc0 ANull) (tr_utest nenc0 senc0 (UPos [ICmp CLt (ANum 5)])) = F.VBool false /\
   in_test false false (in_neg_list_gen false) ANull (UPos [ICmp CLt (ANum 5)]) = TF /\
   feel_in (tr_atom nenc0 senc0 ANull) (tr_utest nenc0 senc0 (UNeg [ICmp CLt (ANum 5)])) = F.VBool true).
Proof. exact (conj nenc0_embedding (conj senc0_embedding (conj link_nonvacuous single_test_null_differs))). Qed.

Print Assumptions C03_policy_refines.
Print Assumptions C03_policy_refines_agreeing.
Print Assumptions C03_in_scope_agreeing.
Print Assumptions C03_scope_hypotheses_needed_refuted.
Print Assumptions C03_entry_satisfied.
Print Assumptions C03_entry_code_exact.
Print Assumptions C03_entry_agrees_iff.
Print Assumptions C03_sat_cases.
Print Assumptions C03_sat_null_input.
Print Assumptions C03_null_literal_entry_never_matches.
Print Assumptions C03_null_literal_spec.
Print Assumptions C03_null_literal_known.
Print Assumptions C03_entry_satisfied_if_null_literal_handled.
Print Assumptions C03_policy_refines_if_null_literal_handled.
Print Assumptions C03_matching_exact.
Print Assumptions C03_first_is_least_index.
Print Assumptions C03_collect_is_filter_map_in_rule_order.
Print Assumptions C03_precedes_is_lexicographic.
Print Assumptions C03_priority_spec.
Print Assumptions C03_priority_winner_unique.
Print Assumptions C03_output_order_spec.
Print Assumptions C03_output_order_perm_sorted_stable.
Print Assumptions C03_output_order_result.
Print Assumptions C03_priority_result.
Print Assumptions C03_unique_any.
Print Assumptions C03_count_length.
Print Assumptions C03_aggregates.
Print Assumptions C03_no_hit_default.
Print Assumptions C03_default_spec.
Print Assumptions C03_rule_output_spec.
Print Assumptions C03_compound_keyed_by_names.
Print Assumptions C03_no_crash_if_well_shaped.
Print Assumptions C03_crash_if_ill_shaped.
Print Assumptions C03_orig_negated_interval_refuted.
Print Assumptions C03_orig_priority_flattened_refuted.
Print Assumptions C03_orig_default_compound_refuted.
Print Assumptions C03_orig_dash_null_refuted.
Print Assumptions C03_nonvacuous.
Print Assumptions C03_nonvacuous_untyped.
Print Assumptions C03_matching_is_feel_in.
Print Assumptions C03_rule_matches_is_feel_in.
Print Assumptions C03_feel_in_expression.
Print Assumptions C03_matching_is_feel_in_nonvacuous.
