(* C01/C13 — syntax, values and the pure operators of the FEEL core fragment, transliterated from
   feel-evaluator/src/builders.rs (build_add … build_or, eval_ternary_equality, eval_in_xxx).
   Owner: lead.  No proofs in this file.
   Numbers are decimal128 data (coq/Base/Dec.v) and + - * / are the correctly rounded operations of
   coq/Base/DecRound.v (the subject of C02, imported, not copied); an overflow is null.  `**` is modelled
   for natural exponents with an exact result; any other power is VPoison ("a number the model does
   not compute"), which the check skips.  *)
From Coq Require Import List ZArith NArith Bool.
From DV Require C16.Model.
From DV Require Import Base.Dec Base.DecRound.
Import ListNotations.
Open Scope Z_scope.

Inductive binop := Add | Sub | Mul | Div | Exp | Eq | Ne | Lt | Le | Gt | Ge | And | Or.
Inductive cmpop := CLt | CLe | CGt | CGe.

Inductive expr :=
| ENull | EBool (b : bool) | ENum (d : dec) | EStr (s : list N) | EName (n : N)
| EBin (o : binop) (a b : expr)
| ENeg (a : expr)
| EIf (c t e : expr)
| EBetween (x lo hi : expr)
| EIn (x : expr) (ts : list test)            (* x in (t1, t2, …)   — one test: x in t *)
| EInList (x : expr) (l : expr)              (* x in <expression evaluating to a list or a scalar> *)
| EList (es : list expr)
| ECtx (es : list (N * expr))                (* keys pairwise distinct *)
| EPath (e : expr) (k : N)
| EFilter (e f : expr)
| EFor (ds : list (N * dom)) (body : expr)
| ESome (ds : list (N * expr)) (body : expr)
| EEvery (ds : list (N * expr)) (body : expr)
| EFun (ps : list (N * C16.Model.ftype)) (body : expr)      (* formal parameters with their declared types (Any when omitted) *)
| ECall (f : expr) (args : list expr)
| ECallN (f : expr) (args : list (N * expr))
with test :=
| TVal (e : expr) | TCmp (o : cmpop) (e : expr) | TRange (lo : expr) (lc : bool) (hi : expr) (hc : bool)
with dom := DList (e : expr) | DRange (lo hi : expr).

Inductive value :=
| VNull | VBool (b : bool) | VNum (d : dec) | VStr (s : list N)
| VList (l : list value)
| VCtx (es : list (N * value))                (* BTreeMap: sorted by key, keys distinct *)
| VRange (lo : value) (lc : bool) (hi : value) (hc : bool)
| VUnary (o : cmpop) (v : value)              (* Value::UnaryLess … *)
| VFun (ps : list (N * C16.Model.ftype)) (body : expr)
| VPoison.

Definition ctx := list (N * value).
Definition stack := list ctx.                 (* head = top of the scope stack *)

(* reserved names *)
Definition n_item : N := 50%N.
Definition n_partial : N := 60%N.

(* ---------- contexts (BTreeMap<Name, Value>) ---------- *)
Fixpoint ctx_get (k : N) (c : ctx) : option value :=
  match c with [] => None | (k', v) :: r => if N.eqb k k' then Some v else ctx_get k r end.

Fixpoint ctx_set (k : N) (v : value) (c : ctx) : ctx :=
  match c with
  | [] => [(k, v)]
  | (k', v') :: r => if N.eqb k k' then (k, v) :: r else if N.ltb k k' then (k, v) :: (k', v') :: r else (k', v') :: ctx_set k v r
  end.

(* Scope::get_entry: from the top of the stack to the bottom *)
Fixpoint lookup (k : N) (S : stack) : option value :=
  match S with [] => None | c :: r => match ctx_get k c with Some v => Some v | None => lookup k r end end.

(* Scope::set_entry: on the top context only; no-op on an empty stack *)
Definition set_top (k : N) (v : value) (S : stack) : stack :=
  match S with [] => [] | c :: r => ctx_set k v c :: r end.

(* ---------- numbers ---------- *)
Definition enum (z : Z) : expr := ENum (of_Z z 0).
Definition vnum (z : Z) : value := VNum (of_Z z 0).
Definition of_num (o : option dec) : value := match o with Some d => VNum d | None => VNull end.
Definition num_eqb (a b : dec) : bool := match dcmp a b with Datatypes.Eq => true | _ => false end.
Definition num_ltb (a b : dec) : bool := match dcmp a b with Datatypes.Lt => true | _ => false end.
Definition num_leb (a b : dec) : bool := match dcmp a b with Datatypes.Gt => false | _ => true end.
Definition num_div (a b : dec) : value := if dis_zero b then VNull else of_num (ddiv a b).
(* natural exponents whose exact result fits 34 digits; everything else is left to C02 *)
Definition num_pow (a b : dec) : value :=
  if dis_zero a && dis_zero b then VNull        (* decNumber: 0 ** 0 is invalid *)
  else if is_integral b && (0 <=? ztrunc b) && (ztrunc b <=? 64) then
    let n := Z.to_N (ztrunc b) in
    if (ndigits (coef a ^ n) <=? PREC)%N then of_num (dpow_nat a n) else VPoison
  else VPoison.
(* FeelNumber -> isize / usize conversions: integral values only *)
Definition num_int (d : dec) : option Z := if is_integral d then Some (ztrunc d) else None.

(* ---------- strings: Rust compares UTF-8 bytes = code point order ---------- *)
Fixpoint str_cmp (a b : list N) : comparison :=
  match a, b with
  | [], [] => Datatypes.Eq | [], _ => Datatypes.Lt | _, [] => Datatypes.Gt
  | x :: a', y :: b' => match N.compare x y with Datatypes.Eq => str_cmp a' b' | c => c end
  end.
Definition str_eqb (a b : list N) : bool := match str_cmp a b with Datatypes.Eq => true | _ => false end.
Definition str_ltb (a b : list N) : bool := match str_cmp a b with Datatypes.Lt => true | _ => false end.
Definition str_leb (a b : list N) : bool := negb (str_ltb b a).

(* ---------- eval_ternary_equality (after the fix that makes null comparisons symmetric) ---------- *)
Fixpoint teq (fuel : nat) (a b : value) : option bool :=
  match fuel with O => None | S f =>
  match a, b with
  | VPoison, _ | _, VPoison => None
  | VBool x, VBool y => Some (Bool.eqb x y)
  | VNum x, VNum y => Some (num_eqb x y)
  | VStr x, VStr y => Some (str_eqb x y)
  | VNull, VNull => Some true
  | VCtx x, VCtx y =>
      if Nat.eqb (length x) (length y) then
        if existsb (fun e => match ctx_get (fst e) y with None => true | Some _ => false end) x then Some false else
        (fix go (es : list (N * value)) : option bool :=
           match es with
           | [] => Some true
           | (k, v1) :: r =>
               match ctx_get k y with
               | Some v2 => match teq f v1 v2 with Some true => go r | Some false => Some false | None => None end
               | None => Some false
               end
           end) x
      else Some false
  | VList x, VList y =>
      if Nat.eqb (length x) (length y) then
        Some ((fix go (p q : list value) : bool :=
           match p, q with
           | u :: p', w :: q' => match teq f u w with Some true => go p' q' | _ => false end
           | _, _ => true end) x y)
      else Some false
  | (VBool _ | VNum _ | VStr _ | VCtx _ | VList _), VNull => Some false
  | VNull, (VBool _ | VNum _ | VStr _ | VCtx _ | VList _) => Some false
  | _, _ => None
  end end.

Fixpoint vsize (v : value) : nat :=
  match v with
  | VList l => S (fold_right (fun x n => vsize x + n)%nat O l)
  | VCtx es => S (fold_right (fun e n => vsize (snd e) + n)%nat O es)
  | VRange lo _ hi _ => S (vsize lo + vsize hi)
  | VUnary _ v => S (vsize v)
  | _ => 1%nat end.

Definition veq (a b : value) : option bool := teq (vsize a + vsize b) a b.
Definition in_equal (a b : value) : bool := match veq a b with Some true => true | _ => false end.

Definition of_opt (o : option bool) : value := match o with Some b => VBool b | None => VNull end.

(* ---------- binary operators ---------- *)
Definition poisoned (a b : value) : bool :=
  match a, b with VPoison, _ | _, VPoison => true | _, _ => false end.

Definition cmp_lt (a b : value) : value :=
  match a, b with
  | VNum x, VNum y => VBool (num_ltb x y) | VStr x, VStr y => VBool (str_ltb x y) | _, _ => VNull end.
Definition cmp_le (a b : value) : value :=
  match a, b with
  | VNum x, VNum y => VBool (num_leb x y) | VStr x, VStr y => VBool (str_leb x y) | _, _ => VNull end.

Definition and3 (a b : value) : value :=
  match a with
  | VBool x => match b with VBool y => VBool (x && y) | _ => if x then VNull else VBool false end
  | _ => match b with VBool y => if y then VNull else VBool false | _ => VNull end
  end.
Definition or3 (a b : value) : value :=
  match a with
  | VBool x => match b with VBool y => VBool (x || y) | _ => if x then VBool true else VNull end
  | _ => match b with VBool y => if y then VBool true else VNull | _ => VNull end
  end.

Definition binop_eval (o : binop) (a b : value) : value :=
  if poisoned a b then VPoison else
  match o with
  | Add => match a, b with VNum x, VNum y => of_num (dadd x y) | VStr x, VStr y => VStr (x ++ y) | _, _ => VNull end
  | Sub => match a, b with VNum x, VNum y => of_num (dsub x y) | _, _ => VNull end
  | Mul => match a, b with VNum x, VNum y => of_num (dmul x y) | _, _ => VNull end
  | Div => match a, b with VNum x, VNum y => num_div x y | _, _ => VNull end
  | Exp => match a, b with VNum x, VNum y => num_pow x y | _, _ => VNull end
  | Eq => of_opt (veq a b)
  | Ne => match veq a b with Some r => VBool (negb r) | None => VNull end
  | Lt => cmp_lt a b
  | Le => cmp_le a b
  | Gt => cmp_lt b a
  | Ge => cmp_le b a
  | And => and3 a b
  | Or => or3 a b
  end.

Definition neg_eval (a : value) : value :=
  match a with VNum x => VNum (dminus x) | VPoison => VPoison | _ => VNull end.

Definition between_eval (x lo hi : value) : value :=
  match x, lo, hi with
  | VPoison, _, _ | _, VPoison, _ | _, _, VPoison => VPoison
  | VNum v, VNum l, VNum h => VBool (num_leb l v && num_leb v h)
  | VStr v, VStr l, VStr h => VBool (str_leb l v && str_leb v h)
  | _, _, _ => VNull
  end.

(* ---------- the `in` operator ---------- *)
Definition in_unary (o : cmpop) (x r : value) : value :=
  match o with
  | CLt => cmp_lt x r | CLe => cmp_le x r | CGt => cmp_lt r x | CGe => cmp_le r x end.

Definition in_range (x lo : value) (lc : bool) (hi : value) (hc : bool) : value :=
  match x, lo, hi with
  | VNum v, VNum l, VNum h => VBool ((if lc then num_leb l v else num_ltb l v) && (if hc then num_leb v h else num_ltb v h))
  | VStr v, VStr l, VStr h => VBool ((if lc then str_leb l v else str_ltb l v) && (if hc then str_leb v h else str_ltb v h))
  | _, _, _ => VNull
  end.

Definition is_true (v : value) : bool := match v with VBool true => true | _ => false end.

(* eval_in_list: the first item that matches gives true; an item of an unexpected kind gives null at once *)
Fixpoint in_list (fuel : nat) (x : value) (items : list value) : value :=
  match fuel with O => VNull | S f =>
  match items with
  | [] => VBool false
  | it :: r =>
      match it with
      | VStr _ | VNum _ | VBool _ | VCtx _ => if in_equal x it then VBool true else in_list f x r
      | VUnary o v => if is_true (in_unary o x v) then VBool true else in_list f x r
      | VList inner => if is_true (in_list f x inner) then VBool true else in_list f x r
      | VRange lo lc hi hc => if is_true (in_range x lo lc hi hc) then VBool true else in_list f x r
      | _ => VNull
      end
  end end.

Fixpoint has_poison (fuel : nat) (v : value) : bool :=
  match fuel with O => true | S f =>
  match v with
  | VPoison => true
  | VList l => existsb (has_poison f) l
  | VCtx es => existsb (fun e => has_poison f (snd e)) es
  | VRange lo _ hi _ => has_poison f lo || has_poison f hi
  | VUnary _ v => has_poison f v
  | _ => false end end.
Definition poison (v : value) : bool := has_poison (vsize v) v.

(* eval_in_list_in_list: every element of x is matched by a distinct element of the first list item *)
Fixpoint remove_first (x : value) (l : list value) : option (list value) :=
  match l with
  | [] => None
  | y :: r => if in_equal x y then Some r else match remove_first x r with Some r' => Some (y :: r') | None => None end
  end.
Fixpoint sub_multiset (xs ys : list value) : bool :=
  match xs with [] => true | x :: r => match remove_first x ys with Some ys' => sub_multiset r ys' | None => false end end.
Definition in_list_in_list (xs : list value) (items : list value) : value :=
  match find (fun it => match it with VList _ => true | _ => false end) items with
  | Some (VList ys) => VBool (sub_multiset xs ys)
  | _ => VBool false end.

(* build_in, right operand already evaluated *)
Definition in_eval (x r : value) : value :=
  if poison x || poison r then VPoison else
  match r with
  | VNum _ | VStr _ | VBool _ | VCtx _ => VBool (in_equal x r)
  | VRange lo lc hi hc => in_range x lo lc hi hc
  | VList items => match x with VList xs => in_list_in_list xs items | _ => in_list (S (vsize r)) x items end
  | VUnary o v => in_unary o x v
  | _ => VNull
  end.
(* x in (t1, …, tn), n >= 2: Value::ExpressionList → eval_in_list *)
Definition in_tests_eval (x : value) (ts : list value) : value :=
  if poison x || existsb poison ts then VPoison else in_list (S (fold_right (fun v n => vsize v + n)%nat O ts)) x ts.

(* ---------- path ---------- *)
Definition path_eval (v : value) (k : N) : value :=
  match v with
  | VCtx c => match ctx_get k c with Some x => x | None => VNull end
  | VList items =>
      (fix go (l : list value) (acc : list value) : value :=
         match l with
         | [] => VList (rev acc)
         | VCtx c :: r => go r (match ctx_get k c with Some x => x :: acc | None => acc end)
         | _ :: _ => VNull
         end) items []
  | VPoison => VPoison
  | _ => VNull
  end.

(* ---------- filter: the part after the per-item loop ---------- *)
Definition nth1 (l : list value) (i : Z) : value :=        (* 1-based, negative from the end *)
  let n := Z.of_nat (length l) in
  if (0 <? i) && (i <=? n) then nth (Z.to_nat (i - 1)) l VNull
  else if (i <? 0) && (- i <=? n) then nth (Z.to_nat (n + i)) l VNull
  else VNull.

Definition filter_finish (items kept : list value) (outer : value) : value :=
  match outer with
  | VNum d => match num_int d with Some i => nth1 items i | None => VNull end     (* the index must be an integer *)
  | VPoison => VPoison
  | _ => match kept with [x] => x | _ => VList kept end
  end.

(* filter on a non-list value *)
Definition filter_scalar (v outer : value) : value :=
  match outer with
  | VBool true => VList [v] | VBool false => VList []
  | VNum d => if num_eqb d (of_Z 1 0) then v else VNull
  | VPoison => VPoison
  | _ => VNull end.

(* ---------- iteration domains ---------- *)
Definition dom_values (v : value) : list value := match v with VList l => l | other => [other] end.
Definition range_values (lo hi : Z) : list value :=
  if 100000 <? Z.abs (hi - lo) then [VPoison]        (* not enumerated by the model: the check skips such cases *)
  else if lo <=? hi then map (fun i => vnum (lo + Z.of_nat i)) (seq 0 (Z.to_nat (hi - lo + 1)))
  else map (fun i => vnum (lo - Z.of_nat i)) (seq 0 (Z.to_nat (lo - hi + 1))).

(* cartesian product in declaration order, the first variable outermost; a tuple is a context *)
Fixpoint cart (ds : list (N * list value)) : list ctx :=
  match ds with
  | [] => [[]]
  | (x, vs) :: r => flat_map (fun v => map (fun c => ctx_set x v c) (cart r)) vs
  end.

(* What FeelIterator::run does with its domains: an EMPTY list domain binds nothing and counts as a
   single step, unless every domain is an empty list (then there is no iteration at all).
   This is the behaviour the repository's own test test_for_expression_evaluator_empty_list_2 pins;
   it differs from `cart` exactly when some list domain is empty and another domain is not
   (known finding C01 empty-domain). *)
Definition cart_impl (ds : list (N * list value)) : list ctx :=
  match filter (fun d => match snd d with [] => false | _ => true end) ds with
  | [] => []
  | ne => cart ne
  end.

(* ---------- types of values and coercion of arguments: FeelType::coerced on Value::type_of (feel/src/types.rs, values.rs).
   The relations on types are those of coq/C16/Model.v (imported, not copied). ---------- *)
Module T := C16.Model.
Fixpoint type_of1 (v : value) : T.ftype :=
  match v with
  | VNull => T.TS T.SNull
  | VBool _ => T.TS T.SBoolean
  | VNum _ => T.TS T.SNumber
  | VStr _ => T.TS T.SString
  | VList vs =>
      match vs with
      | [] => T.TList (T.TS T.SNull)
      | x :: _ => let t := type_of1 x in if forallb (fun y => T.type_eqb (type_of1 y) t) vs then T.TList t else T.TList (T.TS T.SAny)
      end
  | VCtx es => T.TCtx (map (fun e => (fst e, type_of1 (snd e))) es)
  | VRange lo _ hi _ => let a := type_of1 lo in let b := type_of1 hi in if T.type_eqb a b then T.TRange a else T.TRange (T.TS T.SAny)
  | VUnary _ _ => T.TS T.SBoolean
  | VFun ps _ => T.TFun (map snd ps) (T.TS T.SAny)
  | VPoison => T.TS T.SAny
  end.

Definition coerced1 (target : T.ftype) (v : value) : value :=
  if poison v then VPoison else
  if T.conformant (type_of1 v) target then v else
  let wrap := match target with
              | T.TList item => if T.conformant (type_of1 v) item then Some (VList [v]) else None
              | _ => None end in
  match wrap with
  | Some w => w
  | None => match v with
            | VList [x] => if T.conformant (type_of1 x) target then x else VNull
            | _ => VNull end
  end.
