(* C11 — property theorems only.  Proofs are in C11/Proofs.v; models in C11/Model.v (on C16's values, types, coerced).
   f = fuel for following type references, D = the item definitions of the model, T = an item definition tree.
   wf_defs / wf_idef: component names are key-ascending (a BTreeMap in the code).
   eval_item / var_eval = the code after the two fix: commits; eval_item_orig = the pinned commit (refuted below).
   clean / plain_refs: no collection type / no referenced type carries allowed values (where the pinned commit was right). *)
From Coq Require Import List NArith Bool Arith.
From DV Require Import C16.Model C16.Proofs C11.Model C11.Proofs.
Import ListNotations.

(* the copy-pasted closures all compute the one generic function of their simple type *)
Theorem C11_copies_uniform_simple : forall p av v, simple_copy p av v = if is_atom p v then check_av av v else VNull.
Proof. exact simple_copy_uniform. Qed.
Theorem C11_copies_uniform_collection : forall p ci av v,
  coll_copy p ci av v = match v with
                        | VList vs => if forallb (is_atom p) vs then coll_av ci av vs else VNull
                        | _ => VNull end.
Proof. exact coll_copy_uniform. Qed.
Theorem C11_copies_uniform_variable : forall p v, var_copy p v = if is_atom p v then v else VNull.
Proof. exact var_copy_uniform. Qed.
Theorem C11_copies_uniform_types : forall p,
  type_simple_copy p = Some (TS (prim_simple p)) /\ type_coll_copy p = Some (TList (TS (prim_simple p))).
Proof. intro p. split; [apply type_simple_copy_uniform | apply type_coll_copy_uniform]. Qed.
Theorem C11_copies_uniform : forall ra ci f D T v, eval_item_gen ra ci f D T v = gcheck ra ci f D T v.
Proof. exact eval_item_generic. Qed.

(* the code's algorithm is the Spec, for every type tree and every value *)
Theorem C11_impl_refines : forall f D T v, eval_item f D T v = check f D T v.
Proof. exact impl_refines. Qed.
Theorem C11_input_refines : forall f D name r input, var_eval f D name r input = input_spec f D name r input.
Proof. exact var_eval_refines. Qed.

(* conforming values pass unchanged; anything else becomes null, component-wise for component types *)
Theorem C11_pass_unchanged : forall f D T v, wf_defs D = true -> wf_idef T = true -> conforms f D T v = true -> check f D T v = v.
Proof. exact pass_unchanged. Qed.
Theorem C11_result_conforms_or_null : forall f D T v, check f D T v = VNull \/ wconforms f D T (check f D T v) = true.
Proof. exact result_conforms_or_null. Qed.
Theorem C11_idempotent : forall f D T v, wf_defs D = true -> wf_idef T = true -> check f D T (check f D T v) = check f D T v.
Proof. exact idempotent. Qed.
Theorem C11_component_local : forall f D fs es,
  (forall k, In k (map fst fs) -> vlookup k es <> None) ->
  check (S f) D (IComp fs None) (VCtx es) = VCtx (map (fun e => (fst e, check f D (snd e) (vget (fst e) es))) fs).
Proof. exact component_local. Qed.
Theorem C11_component_missing : forall f D fs av es k, In k (map fst fs) -> vlookup k es = None ->
  check (S f) D (IComp fs av) (VCtx es) = VNull.
Proof. exact component_missing. Qed.

(* fuel: once the fuel covers the type tree (components and reference chains), more fuel changes nothing *)
Theorem C11_fuel_sufficient : forall f g D T v, enough f D T = true -> f <= g -> check g D T v = check f D T v.
Proof. exact fuel_sufficient. Qed.

(* output side: the result coerced to the declared type (C16) *)
Theorem C11_output_coercion : forall f D r v, wf_defs D = true -> wfv v = true ->
  output_value f D r v = VNull \/ conformant (type_of (output_value f D r v)) (var_type f D r) = true.
Proof. exact output_conforms_or_null. Qed.
Theorem C11_output_unchanged : forall f D r v, conformant (type_of v) (var_type f D r) = true -> output_value f D r v = v.
Proof. exact output_unchanged. Qed.
Theorem C11_output_wrap : forall f D r item v, var_type f D r = TList item ->
  conformant (type_of v) (TList item) = false -> conformant (type_of v) item = true -> output_value f D r v = VList [v].
Proof. exact output_wrap. Qed.
Theorem C11_output_unwrap : forall f D r x,
  conformant (type_of (VList [x])) (var_type f D r) = false -> conformant (type_of x) (var_type f D r) = true ->
  (forall item, var_type f D r = TList item -> conformant (type_of (VList [x])) item = false) -> output_value f D r (VList [x]) = x.
Proof. exact output_unwrap. Qed.
Theorem C11_output_idempotent : forall f D r v, wf_defs D = true -> wfv v = true ->
  output_value f D r (output_value f D r v) = output_value f D r v.
Proof. exact output_idempotent. Qed.

(* the pinned commit: a referenced type ignored its own allowed values (tSmall = typeRef tBase + `< 10`, input 50) *)
Theorem C11_referenced_orig_refuted :
  conforms 5 D_small (IRef 1%N (Some [ULt 10%N])) (VAtom SNumber 50%N) = false /\
  check 5 D_small (IRef 1%N (Some [ULt 10%N])) (VAtom SNumber 50%N) = VNull /\
  eval_item 5 D_small (IRef 1%N (Some [ULt 10%N])) (VAtom SNumber 50%N) = VNull /\
  eval_item_orig 5 D_small (IRef 1%N (Some [ULt 10%N])) (VAtom SNumber 50%N) = VAtom SNumber 50%N.
Proof. exact referenced_orig_refuted. Qed.
(* the pinned commit: the allowed values of a collection were tested on the whole list, so [5] was null for `< 10` *)
Theorem C11_collection_orig_refuted :
  let T := ICollSimple PNumber (Some [ULt 10%N]) in
  let v := VList [VAtom SNumber 5%N] in
  clean T = false /\ conforms 5 [] T v = true /\ check 5 [] T v = v /\ eval_item 5 [] T v = v /\ eval_item_orig 5 [] T v = VNull /\
  eval_item 5 [] T (VList [VAtom SNumber 5%N; VAtom SNumber 50%N]) = VNull.
Proof. exact collection_orig_refuted. Qed.
(* ... and these were its only deviations *)
Theorem C11_orig_agrees_outside_findings : forall f D T v,
  clean_defs D = true -> clean T = true -> forallb (fun e => plain_refs (snd e)) D = true -> plain_refs T = true ->
  eval_item_orig f D T v = check f D T v.
Proof. exact orig_agrees_outside_findings. Qed.

Example C11_nonvacuous :
  wf_defs D_ex = true /\ clean_defs D_ex = true /\
  let good := VList [VCtx [(1%N, VAtom SNumber 25%N); (2%N, VAtom SString 1%N)]] in
  let bad := VList [VCtx [(1%N, VAtom SNumber 30%N); (2%N, VAtom SString 1%N)]; VAtom SNumber 1%N] in
  conforms 9 D_ex (ICollRef 2%N None) good = true /\
  eval_item 9 D_ex (ICollRef 2%N None) good = good /\
  eval_item 9 D_ex (ICollRef 2%N None) bad = VList [VCtx [(1%N, VNull); (2%N, VAtom SString 1%N)]; VNull].
Proof. exact nonvacuous. Qed.

Print Assumptions C11_copies_uniform_simple.
Print Assumptions C11_copies_uniform_collection.
Print Assumptions C11_copies_uniform_variable.
Print Assumptions C11_copies_uniform_types.
Print Assumptions C11_copies_uniform.
Print Assumptions C11_impl_refines.
Print Assumptions C11_input_refines.
Print Assumptions C11_pass_unchanged.
Print Assumptions C11_result_conforms_or_null.
Print Assumptions C11_idempotent.
Print Assumptions C11_component_local.
Print Assumptions C11_component_missing.
Print Assumptions C11_fuel_sufficient.
Print Assumptions C11_output_coercion.
Print Assumptions C11_output_unchanged.
Print Assumptions C11_output_wrap.
Print Assumptions C11_output_unwrap.
Print Assumptions C11_output_idempotent.
Print Assumptions C11_referenced_orig_refuted.
Print Assumptions C11_collection_orig_refuted.
Print Assumptions C11_orig_agrees_outside_findings.
Print Assumptions C11_nonvacuous.
