(* C10 — the collector invariant: every recorded part is exactly the input text that ends at its recorded position.  Owner: builder-parse. *)
From Coq Require Import List NArith Bool Arith Lia.
From DV Require Import C10.Model.
Import ListNotations.

(* p is the substring of inp whose last character is at index e *)
Definition ends_at (inp : str) (p : str) (e : nat) : Prop :=
  length p <= S e /\ forall j, j < length p -> nth j p 0%N = ch inp (S e - length p + j).

(* the part being read, kept in reverse: its characters are the input at pos, pos-1, ... *)
Definition cur_ok (inp : str) (pos : nat) (cur : str) : Prop :=
  length cur <= S pos /\ forall j, j < length cur -> nth j cur 0%N = ch inp (pos - j).

Lemma cur_ok_nil : forall inp pos, cur_ok inp pos [].
Proof. intros. split; [cbn; lia|]. intros j Hj. cbn in Hj. lia. Qed.

Lemma cur_ok_push : forall inp pos cur, cur_ok inp pos cur -> cur_ok inp (S pos) (ch inp (S pos) :: cur).
Proof.
  intros inp pos cur [Hl Hn]. split; [cbn [length]; lia|].
  intros j Hj. destruct j as [|j]; [cbn; rewrite ?Nat.sub_0_r; reflexivity|].
  cbn [nth length] in *. rewrite Hn by lia. reflexivity.
Qed.

Lemma ends_at_rev : forall inp pos cur, cur_ok inp pos cur -> ends_at inp (rev cur) pos.
Proof.
  intros inp pos cur [Hl Hn]. unfold ends_at. rewrite rev_length. split; [exact Hl|].
  intros j Hj. rewrite rev_nth by exact Hj. rewrite Hn by lia. f_equal. lia.
Qed.

Lemma ends_at_single : forall inp e, ends_at inp [ch inp e] e.
Proof.
  intros inp e. split; [cbn; lia|]. intros j Hj. cbn in Hj. assert (j = 0) by lia. subst.
  cbn [nth length]. f_equal. lia.
Qed.

Definition inv (inp : str) (s : mstate) (pos : nat) (a : acc) : Prop :=
  Forall2 (ends_at inp) (a_parts a) (a_cps a) /\ cur_ok inp pos (a_cur a) /\
  match s with S1 | S3 => True | _ => a_cur a = [] end.

Lemma step_inv : forall inp s pos a s' pos' a', inv inp s pos a -> step inp s pos a = Some (s', pos', a') -> inv inp s' pos' a'.
Proof.
  intros inp s pos a s' pos' a' [HF [Hc Hs]] H. unfold step in H. unfold inv.
  destruct s.
  - destruct (next_is is_name_part inp pos); inversion H; subst; cbn [a_parts a_cps a_cur].
    + refine (conj HF (conj _ I)). apply cur_ok_push; exact Hc.
    + refine (conj _ (conj (cur_ok_nil _ _) eq_refl)). constructor; [apply ends_at_rev; exact Hc|exact HF].
  - destruct (next_is is_name_part inp pos); [inversion H; subst; exact (conj HF (conj Hc I))|].
    destruct (next_is is_add_sym inp pos); [inversion H; subst; exact (conj HF (conj Hc Hs))|].
    destruct (next_is is_ws inp pos); [inversion H; subst; exact (conj HF (conj Hc Hs))|discriminate H].
  - destruct (next_is is_name_part inp pos); inversion H; subst; cbn [a_parts a_cps a_cur].
    + refine (conj HF (conj _ I)). apply cur_ok_push; exact Hc.
    + refine (conj _ (conj (cur_ok_nil _ _) eq_refl)). constructor; [apply ends_at_rev; exact Hc|exact HF].
  - destruct (next_is is_add_sym inp pos); inversion H; subst; cbn [a_parts a_cps a_cur].
    + refine (conj _ (conj (cur_ok_nil _ _) eq_refl)). constructor; [apply ends_at_single|exact HF].
    + exact (conj HF (conj Hc Hs)).
  - destruct (next_is is_ws inp pos); inversion H; subst.
    + refine (conj HF (conj _ Hs)). rewrite Hs. apply cur_ok_nil.
    + exact (conj HF (conj Hc Hs)).
Qed.

Lemma machine_inv : forall fuel inp s pos a s' pos' a', inv inp s pos a -> machine fuel inp s pos a = (s', pos', a') -> inv inp s' pos' a'.
Proof.
  induction fuel as [|f IH]; intros inp s pos a s' pos' a' Hi H; cbn [machine] in H.
  - inversion H; subst. exact Hi.
  - destruct (step inp s pos a) as [[[s1 p1] a1]|] eqn:E.
    + eapply IH; [eapply step_inv; eauto|exact H].
    + inversion H; subst. exact Hi.
Qed.

Lemma Forall2_rev : forall A B (R : A -> B -> Prop) l1 l2, Forall2 R l1 l2 -> Forall2 R (rev l1) (rev l2).
Proof.
  intros A B R l1 l2 H. induction H; [constructor|]. cbn [rev]. apply Forall2_app; [assumption|]. constructor; [assumption|constructor].
Qed.

(* every part the collector returns is exactly the input text that ends at its recorded position: the position the lexer
   goes back to, S (nth (pc - 1) cps 0), is the index right after the last character of the chosen part *)
Theorem backtrack_exact : forall inp pos parts cps endpos,
  collect inp pos = (parts, cps, endpos) -> Forall2 (ends_at inp) parts cps.
Proof.
  intros inp pos parts cps endpos H. unfold collect in H.
  destruct (machine (4 * S (length inp)) inp S1 pos {| a_parts := []; a_cps := []; a_cur := [ch inp pos] |}) as [[s p] a] eqn:E.
  inversion H; subst. apply Forall2_rev.
  assert (Hi : inv inp S1 pos {| a_parts := []; a_cps := []; a_cur := [ch inp pos] |}).
  { refine (conj _ (conj (conj _ _) I)); cbn [a_parts a_cps a_cur]; [constructor|cbn; lia|].
    intros j Hj. cbn in Hj. assert (j = 0) by lia. subst. cbn. rewrite ?Nat.sub_0_r. reflexivity. }
  destruct (machine_inv _ _ _ _ _ _ _ _ Hi E) as [HF _]. exact HF.
Qed.
