(* C05 — proofs about the machine-integer model (coq/C05/Model.v).  (owner: builder-total) *)
From Coq Require Import ZArith List Bool Lia.
From DV Require Import C05.Model.
Import ListNotations.
Open Scope Z_scope.

(* lengths of Vec / String never exceed isize::MAX (an allocation of more bytes is refused by the allocator API) *)
Definition valid_len (len : Z) : Prop := 0 <= len <= isize_max.

Ltac consts := unfold valid_len, usize_max, isize_max, isize_min, two64 in *.

Ltac b2p :=
  repeat match goal with
  | H : _ && _ = true |- _ => apply andb_true_iff in H; destruct H
  | H : _ && _ = false |- _ => apply andb_false_iff in H; destruct H
  | H : _ || _ = true |- _ => apply orb_true_iff in H; destruct H
  | H : _ || _ = false |- _ => apply orb_false_iff in H; destruct H
  | H : negb _ = true |- _ => apply negb_true_iff in H
  | H : negb _ = false |- _ => apply negb_false_iff in H
  | H : (_ <=? _) = true |- _ => apply Z.leb_le in H
  | H : (_ <=? _) = false |- _ => apply Z.leb_gt in H
  | H : (_ <? _) = true |- _ => apply Z.ltb_lt in H
  | H : (_ <? _) = false |- _ => apply Z.ltb_ge in H
  | H : Some _ = Some _ |- _ => inversion H; clear H; subst
  | H : MOk _ = MOk _ |- _ => inversion H; clear H; subst
  | H : Slice _ _ = Slice _ _ |- _ => inversion H; clear H; subst
  | H : Inserted _ = Inserted _ |- _ => inversion H; clear H; subst
  | H : Removed _ = Removed _ |- _ => inversion H; clear H; subst
  | H : Item _ = Item _ |- _ => inversion H; clear H; subst
  | H : YmOk _ = YmOk _ |- _ => inversion H; clear H; subst
  end.

(* split on the first test still standing in the goal, turn it into arithmetic, drop the branch when it is contradictory *)
Ltac split_if :=
  match goal with
  | |- context [if ?c then _ else _] =>
      lazymatch c with
      | context [if _ then _ else _] => fail
      | _ => destruct c eqn:?; b2p; consts; try lia; try discriminate
      end
  | H : context [if ?c then _ else _] |- _ =>
      lazymatch c with
      | context [if _ then _ else _] => fail
      | _ => destruct c eqn:?; b2p; consts; try lia; try discriminate
      end
  end.

Ltac crunch := intros; consts; cbn -[Z.add Z.sub Z.mul Z.opp Z.abs Z.leb Z.ltb Z.modulo Z.min] in *; repeat split_if; b2p; consts; try congruence; try lia.

Ltac unfold_ops :=
  unfold sublist3, sublist3_orig, sublist2, substring3, substring2, insert_before, remove, filter_index, bind, slice, vec_insert, vec_remove,
         uadd, usub, iadd, imul, ineg, iabs, mach_u, mach_i, to_usize, to_isize, is_positive, is_negative, nabs, ntrunc, lt_one in *; unfold in_u, in_i in *.

(* ------------------------------------------------------------------ no panic, in both builds *)
Lemma sublist3_no_panic : forall b len pos l, valid_len len -> sublist3 b len pos l <> Panic.
Proof. intros b len pos l H. destruct b, pos, l; unfold_ops; crunch. Qed.

Lemma sublist2_no_panic : forall b len pos, valid_len len -> sublist2 b len pos <> Panic.
Proof. intros b len pos H. destruct b, pos; unfold_ops; crunch. Qed.

Lemma substring3_no_panic : forall b len start l, valid_len len -> substring3 b len start l <> Panic.
Proof. intros b len start l H. destruct b, start, l; unfold_ops; crunch. Qed.

Lemma substring2_no_panic : forall b len start, valid_len len -> substring2 b len start <> Panic.
Proof. intros b len start H. destruct b, start; unfold_ops; crunch. Qed.

Lemma insert_before_no_panic : forall b len pos, valid_len len -> insert_before b len pos <> Panic.
Proof. intros b len pos H. destruct b, pos; unfold_ops; crunch. Qed.

Lemma remove_no_panic : forall b len pos, valid_len len -> remove b len pos <> Panic.
Proof. intros b len pos H. destruct b, pos; unfold_ops; crunch. Qed.

Lemma filter_index_no_panic : forall b len i, valid_len len -> filter_index b len i <> Panic.
Proof. intros b len i H. destruct b, i; unfold_ops; crunch. Qed.

(* ------------------------------------------------------------------ the answer does not depend on the build *)
Lemma sublist3_build_independent : forall len pos l, valid_len len -> sublist3 Debug len pos l = sublist3 Release len pos l.
Proof. intros len pos l H. destruct pos, l; unfold_ops; crunch. Qed.

Lemma sublist2_build_independent : forall len pos, valid_len len -> sublist2 Debug len pos = sublist2 Release len pos.
Proof. intros len pos H. destruct pos; unfold_ops; crunch. Qed.

Lemma substring3_build_independent : forall len start l, valid_len len -> substring3 Debug len start l = substring3 Release len start l.
Proof. intros len start l H. destruct start, l; unfold_ops; crunch. Qed.

Lemma substring2_build_independent : forall len start, valid_len len -> substring2 Debug len start = substring2 Release len start.
Proof. intros len start H. destruct start; unfold_ops; crunch. Qed.

Lemma insert_before_build_independent : forall len pos, valid_len len -> insert_before Debug len pos = insert_before Release len pos.
Proof. intros len pos H. destruct pos; unfold_ops; crunch. Qed.

Lemma remove_build_independent : forall len pos, valid_len len -> remove Debug len pos = remove Release len pos.
Proof. intros len pos H. destruct pos; unfold_ops; crunch. Qed.

Lemma filter_index_build_independent : forall len i, valid_len len -> filter_index Debug len i = filter_index Release len i.
Proof. intros len i H. destruct i; unfold_ops; crunch. Qed.

(* ------------------------------------------------------------------ what is returned is inside the list / string *)
Lemma sublist3_in_bounds : forall b len pos l f la, valid_len len -> sublist3 b len pos l = Slice f la -> 0 <= f <= la /\ la <= len.
Proof. intros b len pos l f la H. destruct b, pos, l; unfold_ops; crunch. Qed.

Lemma sublist2_in_bounds : forall b len pos f la, valid_len len -> sublist2 b len pos = Slice f la -> 0 <= f <= la /\ la <= len.
Proof. intros b len pos f la H. destruct b, pos; unfold_ops; crunch. Qed.

Lemma substring3_in_bounds : forall b len start l f la, valid_len len -> substring3 b len start l = Slice f la -> 0 <= f <= la /\ la <= len.
Proof. intros b len start l f la H. destruct b, start, l; unfold_ops; crunch. Qed.

Lemma substring2_in_bounds : forall b len start f la, valid_len len -> substring2 b len start = Slice f la -> 0 <= f <= la /\ la <= len.
Proof. intros b len start f la H. destruct b, start; unfold_ops; crunch. Qed.

Lemma insert_before_in_bounds : forall b len pos a, valid_len len -> insert_before b len pos = Inserted a -> 0 <= a <= len.
Proof. intros b len pos a H. destruct b, pos; unfold_ops; crunch. Qed.

Lemma remove_in_bounds : forall b len pos a, valid_len len -> remove b len pos = Removed a -> 0 <= a < len.
Proof. intros b len pos a H. destruct b, pos; unfold_ops; crunch. Qed.

Lemma filter_index_in_bounds : forall b len i a, valid_len len -> filter_index b len i = Item a -> 0 <= a < len.
Proof. intros b len i a H. destruct b, i; unfold_ops; crunch. Qed.

(* ------------------------------------------------------------------ the pinned code is refuted, in the build with and in the build without overflow checks *)
Lemma sublist3_orig_refuted_debug_underflow : valid_len 3 /\ sublist3_orig Debug 3 (Int (-4)) (Int 1) = Panic.
Proof. split; [consts; lia | vm_compute; reflexivity]. Qed.
Lemma sublist3_orig_refuted_debug_overflow : valid_len 1 /\ sublist3_orig Debug 1 (Int 2) (Int usize_max) = Panic.
Proof. split; [consts; lia | vm_compute; reflexivity]. Qed.
Lemma sublist3_orig_refuted_release : valid_len 3 /\ sublist3_orig Release 3 (Int 2) (Int usize_max) = Panic.
Proof. split; [consts; lia | vm_compute; reflexivity]. Qed.
Lemma substring3_orig_refuted_debug : valid_len 3 /\ substring3_orig Debug 3 (Int 2) (Int usize_max) = Panic.
Proof. split; [consts; lia | vm_compute; reflexivity]. Qed.
(* without overflow checks the pinned substring does not panic but answers from a wrapped end position *)
Lemma substring3_orig_release_wrong : substring3_orig Release 3 (Int 2) (Int usize_max) = Slice 1 3 /\ substring3 Release 3 (Int 2) (Int usize_max) = Null.
Proof. split; vm_compute; reflexivity. Qed.

(* ------------------------------------------------------------------ years and months duration literals *)
Ltac unfold_ym := unfold ym_parse, ym_parse_orig, ym_display_panics, parse_u64, i64_try_from_u64, checked_imul, checked_iadd, ineg, iabs, imul, iadd, mach_i in *; unfold in_u, in_i in *.

Lemma ym_parse_no_panic : forall b y m neg, ym_parse b y m neg <> YmPanic.
Proof. intros b y m neg. destruct b, y, m, neg; unfold_ym; crunch. Qed.

Lemma ym_parse_build_independent : forall y m neg, ym_parse Debug y m neg = ym_parse Release y m neg.
Proof. intros y m neg. destruct y, m, neg; unfold_ym; crunch. Qed.

Lemma ym_parse_range : forall b y m neg t, ym_parse b y m neg = YmOk t -> - isize_max <= t <= isize_max.
Proof. intros b y m neg t. destruct b, y, m, neg; unfold_ym; crunch. Qed.

(* the parsed value is the written one *)
Lemma ym_parse_value : forall b y m neg t, ym_parse b (Some y) (Some m) neg = YmOk t -> 0 <= y <= usize_max -> 0 <= m <= usize_max -> t = (if neg then - (12 * y + m) else 12 * y + m).
Proof. intros b y m neg t. destruct b, neg; unfold_ym; crunch. Qed.

Lemma ym_display_no_panic : forall b t, - isize_max <= t <= isize_max -> ym_display_panics b t = false.
Proof.
  intros b t H. unfold ym_display_panics, iabs, imul, mach_i, in_i. consts.
  assert (Ha : 0 <= Z.abs t <= 9223372036854775807) by lia.
  assert (Hq : 0 <= Z.quot (Z.abs t) 12 * 12 <= Z.abs t).
  { pose proof (Z.quot_pos (Z.abs t) 12). pose proof (Z.mul_quot_le (Z.abs t) 12). lia. }
  destruct b; crunch.
Qed.

Lemma ym_parse_then_display : forall b y m neg t, ym_parse b y m neg = YmOk t -> ym_display_panics b t = false.
Proof. intros. apply ym_display_no_panic. eapply ym_parse_range; eauto. Qed.

Lemma ym_parse_orig_refuted_debug_mul : ym_parse_orig Debug (Some 9999999999999999999) None false = YmPanic.
Proof. vm_compute; reflexivity. Qed.
Lemma ym_parse_orig_refuted_debug_add : ym_parse_orig Debug (Some 768614336404564650) (Some 8) false = YmPanic.
Proof. vm_compute; reflexivity. Qed.
Lemma ym_parse_orig_refuted_debug_neg : ym_parse_orig Debug None (Some 9223372036854775808) true = YmPanic.
Proof. vm_compute; reflexivity. Qed.
Lemma ym_parse_orig_refuted_display : ym_parse_orig Debug None (Some 9223372036854775808) false = YmOk isize_min /\ ym_display_panics Debug isize_min = true.
Proof. split; vm_compute; reflexivity. Qed.
Lemma ym_parse_orig_release_wrong : exists t, ym_parse_orig Release (Some 9999999999999999999) None false = YmOk t /\ t <> 12 * 9999999999999999999.
Proof. eexists. split; [vm_compute; reflexivity | discriminate]. Qed.

(* ------------------------------------------------------------------ scientific_to_plain *)
Lemma sci_zero_count_ok : forall b ndigits e, 1 <= ndigits -> 1 <= e -> e + ndigits - 1 <= usize_max -> sci_zero_count b ndigits e = MOk e.
Proof. intros b nd e H1 H2 H3. unfold sci_zero_count, usub, mach_u, in_u. consts. destruct b; crunch; f_equal; lia. Qed.
