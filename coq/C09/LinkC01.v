(* C09/LinkC01.v — the two independently written transliterations of feel-evaluator/src/builders.rs
   (C01/Syntax.v: teq / veq, cmp_lt, cmp_le, and3, or3, between_eval, in_range, in_eval;
    C09/Model.v:  teq, v_lt .. v_ge, v_and, v_or, v_between, in_range, v_in) are the same functions
   on the values both can express.  Consequently the laws proved for the C09 model hold for the
   evaluator model of C01.

   embedding   C01 value -> C09 value
     numbers   a decimal (neg, coef, expo) is the pair (signed coefficient, exponent): Dec.dcmp and
               Values.ncmp then unfold to the same Z.compare of the cross-scaled coefficients
     strings   the same code-point lists (str_cmp and lcmp are the same recursion)
     contexts  the key number k is the one-character name [k] (an order embedding: lcmp [a] [b] = N.compare a b)
     functions opaque on both sides (arity kept)
     VUnary, VPoison have no counterpart: `emb` is None on every value that contains one (`shared` = false).
   `embt` is the total version used inside the proofs (it sends those two to an opaque function value, on which
   every operator considered here answers exactly as C01 does on VUnary; VPoison is excluded where C01 treats it). *)
From Coq Require Import List NArith ZArith Bool Arith Lia.
From DV Require Base.Dec.
From DV Require C01.Syntax.
From DV Require Import C09.Values C09.Model C09.Proofs.
Import ListNotations.
Open Scope Z_scope.

Module S := DV.C01.Syntax.
Module D := DV.Base.Dec.

(* ================= the embedding ================= *)

Definition key (k : N) : list N := [k].

Fixpoint embt (v : S.value) : value :=
  match v with
  | S.VNull => VNull
  | S.VBool b => VBool b
  | S.VNum d => VNum (D.sval d) (D.expo d)
  | S.VStr s => VStr s
  | S.VList l => VList (map embt l)
  | S.VCtx es => VCtx (map (fun e => (key (fst e), embt (snd e))) es)
  | S.VRange lo lc hi hc => VRange (embt lo) lc (embt hi) hc
  | S.VFun ps _ => VFun (N.of_nat (length ps))
  | S.VUnary _ _ | S.VPoison => VFun 0
  end.

Definition embe (e : N * S.value) : list N * value := (key (fst e), embt (snd e)).

(* the values both models can express *)
Fixpoint shared (v : S.value) : bool :=
  match v with
  | S.VList l => forallb shared l
  | S.VCtx es => forallb (fun e => shared (snd e)) es
  | S.VRange lo _ hi _ => shared lo && shared hi
  | S.VUnary _ _ | S.VPoison => false
  | _ => true
  end.

Definition emb (v : S.value) : option value := if shared v then Some (embt v) else None.

(* C01 contexts with strictly ascending keys at every depth (a BTreeMap) *)
Fixpoint asc (ks : list N) : bool :=
  match ks with
  | [] => true
  | k :: r => match r with [] => true | k' :: _ => N.ltb k k' && asc r end
  end.
Fixpoint swf (v : S.value) : bool :=
  match v with
  | S.VList l => forallb swf l
  | S.VCtx es => asc (map fst es) && forallb (fun e => swf (snd e)) es
  | S.VRange lo _ hi _ => swf lo && swf hi
  | _ => true
  end.

Definition not_poison (v : S.value) : bool := match v with S.VPoison => false | _ => true end.

Lemma embt_list : forall l, embt (S.VList l) = VList (map embt l).
Proof. reflexivity. Qed.
Lemma embt_ctx : forall es, embt (S.VCtx es) = VCtx (map embe es).
Proof. reflexivity. Qed.

Lemma emb_some : forall v v', emb v = Some v' <-> shared v = true /\ v' = embt v.
Proof.
  intros v v'. unfold emb. destruct (shared v); split.
  - intros H. injection H as <-. auto.
  - intros [_ ->]. reflexivity.
  - discriminate.
  - intros [H _]. discriminate.
Qed.

Lemma shared_not_poison : forall v, shared v = true -> not_poison v = true.
Proof. intros v H. destruct v; try reflexivity. discriminate. Qed.

(* ================= nested induction over C01 values ================= *)
Section SValueInd.
  Variable P : S.value -> Prop.
  Hypothesis HList : forall l, Forall P l -> P (S.VList l).
  Hypothesis HCtx : forall es, Forall (fun e => P (snd e)) es -> P (S.VCtx es).
  Hypothesis HRange : forall lo lc hi hc, P lo -> P hi -> P (S.VRange lo lc hi hc).
  Hypothesis HUnary : forall o v, P v -> P (S.VUnary o v).
  Hypothesis HAtom : forall v,
    match v with S.VList _ | S.VCtx _ | S.VRange _ _ _ _ | S.VUnary _ _ => False | _ => True end -> P v.

  Fixpoint svalue_rect' (v : S.value) : P v :=
    match v with
    | S.VList l => HList l ((fix go (l : list S.value) : Forall P l :=
                               match l with [] => Forall_nil _ | x :: r => Forall_cons x (svalue_rect' x) (go r) end) l)
    | S.VCtx es => HCtx es ((fix go (l : list (N * S.value)) : Forall (fun e => P (snd e)) l :=
                               match l with [] => Forall_nil _ | e :: r => Forall_cons e (svalue_rect' (snd e)) (go r) end) es)
    | S.VRange lo lc hi hc => HRange lo lc hi hc (svalue_rect' lo) (svalue_rect' hi)
    | S.VUnary o v => HUnary o v (svalue_rect' v)
    | S.VNull => HAtom S.VNull I
    | S.VBool b => HAtom (S.VBool b) I
    | S.VNum d => HAtom (S.VNum d) I
    | S.VStr s => HAtom (S.VStr s) I
    | S.VFun ps b => HAtom (S.VFun ps b) I
    | S.VPoison => HAtom S.VPoison I
    end.
End SValueInd.

(* ================= atoms ================= *)

Lemma str_cmp_lcmp : forall a b, S.str_cmp a b = lcmp a b.
Proof.
  induction a as [|x a IH]; destruct b as [|y b]; cbn [S.str_cmp lcmp]; try reflexivity.
  all: rewrite IH; reflexivity.
Qed.

(* the comparison of two decimals is the comparison of their (signed coefficient, exponent) pairs *)
Lemma dcmp_ncmp : forall x y, D.dcmp x y = ncmp (D.sval x) (D.expo x) (D.sval y) (D.expo y).
Proof. reflexivity. Qed.

Lemma num_eqb_link : forall x y, S.num_eqb x y = is_eq (ncmp (D.sval x) (D.expo x) (D.sval y) (D.expo y)).
Proof. reflexivity. Qed.
Lemma num_ltb_link : forall x y, S.num_ltb x y = is_lt (ncmp (D.sval x) (D.expo x) (D.sval y) (D.expo y)).
Proof. reflexivity. Qed.
Lemma num_leb_link : forall x y, S.num_leb x y = is_le (ncmp (D.sval x) (D.expo x) (D.sval y) (D.expo y)).
Proof. reflexivity. Qed.

Lemma str_eqb_link : forall a b, S.str_eqb a b = leqb a b.
Proof. intros. unfold S.str_eqb, leqb. rewrite str_cmp_lcmp. reflexivity. Qed.
Lemma str_ltb_link : forall a b, S.str_ltb a b = is_lt (lcmp a b).
Proof. intros. unfold S.str_ltb. rewrite str_cmp_lcmp. reflexivity. Qed.
Lemma str_leb_link : forall a b, S.str_leb a b = is_le (lcmp a b).
Proof.
  intros. unfold S.str_leb. rewrite str_ltb_link, (lcmp_antisym a b). destruct (lcmp a b); reflexivity.
Qed.

Lemma key_cmp : forall a b, lcmp (key a) (key b) = N.compare a b.
Proof. intros. unfold key. cbn [lcmp]. destruct (N.compare a b); reflexivity. Qed.

Lemma key_eqb : forall a b, leqb (key a) (key b) = N.eqb a b.
Proof.
  intros. unfold leqb. rewrite key_cmp. destruct (N.compare a b) eqn:E.
  - apply N.compare_eq_iff in E. subst. symmetry. apply N.eqb_refl.
  - symmetry. apply N.eqb_neq. intros ->. rewrite N.compare_refl in E. discriminate.
  - symmetry. apply N.eqb_neq. intros ->. rewrite N.compare_refl in E. discriminate.
Qed.

(* ================= contexts: ctx_get is lookup ================= *)

Lemma lookup_embe : forall k y, lookup (key k) (map embe y) = option_map embt (S.ctx_get k y).
Proof.
  intros k y. induction y as [|[k' v] y IH]; cbn [map embe fst snd lookup S.ctx_get option_map]; [reflexivity|].
  rewrite key_eqb. destruct (N.eqb k k'); [reflexivity|exact IH].
Qed.

Lemma has_key_embe : forall k y,
  has_key (key k) (map embe y) = match S.ctx_get k y with Some _ => true | None => false end.
Proof. intros. unfold has_key. rewrite lookup_embe. destruct (S.ctx_get k y); reflexivity. Qed.

Lemma keys_first_link : forall x y,
  existsb (fun e => match S.ctx_get (fst e) y with None => true | Some _ => false end) x =
  negb (forallb (fun e => has_key (fst e) (map embe y)) (map embe x)).
Proof.
  intros x y. induction x as [|[k v] x IH]; cbn [existsb forallb map embe fst snd]; [reflexivity|].
  rewrite has_key_embe, IH. destruct (S.ctx_get k y); reflexivity.
Qed.

(* ================= the two loops inside C01's teq, named ================= *)

Fixpoint s_list_eq3 (g : S.value -> S.value -> option bool) (p q : list S.value) : bool :=
  match p, q with
  | u :: p', w :: q' => match g u w with Some true => s_list_eq3 g p' q' | _ => false end
  | _, _ => true
  end.

Fixpoint s_walk (g : S.value -> S.value -> option bool) (y es : list (N * S.value)) : option bool :=
  match es with
  | [] => Some true
  | (k, v1) :: r =>
      match S.ctx_get k y with
      | Some v2 => match g v1 v2 with Some true => s_walk g y r | Some false => Some false | None => None end
      | None => Some false
      end
  end.

Lemma S_teq_list : forall f x y,
  S.teq (S f) (S.VList x) (S.VList y) =
  if Nat.eqb (length x) (length y) then Some (s_list_eq3 (S.teq f) x y) else Some false.
Proof.
  intros f x y. cbn [S.teq]. destruct (Nat.eqb (length x) (length y)); [|reflexivity]. f_equal.
  revert y. induction x as [|u x IH]; intros y; destruct y as [|w y]; cbn [s_list_eq3]; try reflexivity.
  destruct (S.teq f u w) as [[]|]; auto.
Qed.

Lemma S_teq_ctx : forall f x y,
  S.teq (S f) (S.VCtx x) (S.VCtx y) =
  if Nat.eqb (length x) (length y) then
    if existsb (fun e => match S.ctx_get (fst e) y with None => true | Some _ => false end) x then Some false
    else s_walk (S.teq f) y x
  else Some false.
Proof.
  intros f x y. cbn [S.teq]. destruct (Nat.eqb (length x) (length y)); [|reflexivity].
  destruct (existsb _ x); [reflexivity|].
  induction x as [|[k v1] x IH]; cbn [s_walk]; [reflexivity|].
  destruct (S.ctx_get k y) as [v2|]; [|reflexivity].
  destruct (S.teq f v1 v2) as [[]|]; auto.
Qed.

Lemma list_eq3_link : forall g x y,
  (forall u, In u x -> forall w, g u w = teq (embt u) (embt w)) ->
  s_list_eq3 g x y = list_eq3 teq (map embt x) (map embt y).
Proof.
  intros g. induction x as [|u x IH]; intros y H; destruct y as [|w y]; cbn [s_list_eq3 list_eq3 map]; try reflexivity.
  rewrite (H u (or_introl eq_refl) w). destruct (teq (embt u) (embt w)) as [[]|]; auto.
  apply IH. intros u' Hu'. apply H. right. exact Hu'.
Qed.

Lemma walk_link : forall g y x,
  (forall e, In e x -> forall w, g (snd e) w = teq (embt (snd e)) (embt w)) ->
  s_walk g y x = walk teq (map embe y) (map embe x).
Proof.
  intros g y. induction x as [|[k v1] x IH]; intros H; cbn [s_walk walk map embe fst snd]; [reflexivity|].
  rewrite lookup_embe. destruct (S.ctx_get k y) as [v2|]; cbn [option_map]; [|reflexivity].
  pose proof (H (k, v1) (or_introl eq_refl) v2) as Hh. cbn [snd] in Hh. rewrite Hh.
  destruct (teq (embt v1) (embt v2)) as [[]|]; auto.
  apply IH. intros e He. apply H. right. exact He.
Qed.

(* ================= sizes ================= *)
Lemma vsize_pos : forall v, (1 <= S.vsize v)%nat.
Proof. destruct v; cbn [S.vsize]; lia. Qed.

Lemma vsize_in_list : forall u l, In u l -> (S.vsize u < S.vsize (S.VList l))%nat.
Proof.
  intros u l. cbn [S.vsize]. induction l as [|x l IH]; intros H; [contradiction|].
  cbn [fold_right]. destruct H as [->|H]; [lia|]. specialize (IH H). lia.
Qed.

Lemma vsize_in_ctx : forall e es, In e es -> (S.vsize (snd e) < S.vsize (S.VCtx es))%nat.
Proof.
  intros e es. cbn [S.vsize]. induction es as [|x es IH]; intros H; [contradiction|].
  cbn [fold_right]. destruct H as [->|H]; [lia|]. specialize (IH H). lia.
Qed.

(* ================= eval_ternary_equality: the two transliterations agree ================= *)

Lemma teq_link_fuel : forall f a b, (S.vsize a <= f)%nat -> S.teq f a b = teq (embt a) (embt b).
Proof.
  induction f as [|f IH]; intros a b Hf.
  - pose proof (vsize_pos a). lia.
  - destruct a.
    + destruct b; reflexivity.
    + destruct b; reflexivity.
    + destruct b; try reflexivity.
    + destruct b; reflexivity.
    + (* lists *)
      destruct b; try reflexivity.
      rewrite S_teq_list, !embt_list. unfold teq. rewrite teq_gen_list. fold teq. rewrite !map_length.
      destruct (Nat.eqb (length l) (length l0)); [|reflexivity]. f_equal.
      apply list_eq3_link. intros u Hu w. apply IH. pose proof (vsize_in_list u l Hu). lia.
    + (* contexts *)
      destruct b; try reflexivity.
      rewrite S_teq_ctx, !embt_ctx. unfold teq. rewrite teq_gen_ctx. fold teq. rewrite !map_length.
      destruct (Nat.eqb (length es) (length es0)); [|reflexivity].
      cbn [andb]. rewrite keys_first_link.
      destruct (negb (forallb (fun e => has_key (fst e) (map embe es0)) (map embe es))); [reflexivity|].
      apply walk_link. intros e He w. apply IH. pose proof (vsize_in_ctx e es He). lia.
    + destruct b; reflexivity.
    + destruct b; reflexivity.
    + destruct b; reflexivity.
    + destruct b; reflexivity.
Qed.

Theorem veq_link : forall a b, S.veq a b = teq (embt a) (embt b).
Proof. intros a b. unfold S.veq. apply teq_link_fuel. lia. Qed.

(* any fuel that covers the left operand gives the same answer *)
Theorem teq_fuel_irrelevant : forall f a b, (S.vsize a <= f)%nat -> S.teq f a b = S.veq a b.
Proof. intros f a b H. rewrite veq_link. apply teq_link_fuel. exact H. Qed.

(* ================= < <= and / or ================= *)

Theorem cmp_lt_link : forall a b, embt (S.cmp_lt a b) = v_lt (embt a) (embt b).
Proof.
  intros a b. destruct a; destruct b; reflexivity.
Qed.

Theorem cmp_le_link : forall a b, embt (S.cmp_le a b) = v_le (embt a) (embt b).
Proof.
  intros a b. destruct a; destruct b; try reflexivity.
  cbn [S.cmp_le embt]. rewrite str_leb_link. reflexivity.
Qed.

Theorem cmp_gt_link : forall a b, embt (S.cmp_lt b a) = v_gt (embt a) (embt b).
Proof. intros a b. rewrite cmp_lt_link. apply lt_gt_mirror. Qed.

Theorem cmp_ge_link : forall a b, embt (S.cmp_le b a) = v_ge (embt a) (embt b).
Proof. intros a b. rewrite cmp_le_link. apply le_ge_mirror. Qed.

Theorem and3_link : forall a b, embt (S.and3 a b) = v_and (embt a) (embt b).
Proof. intros a b. destruct a as [|[]| | | | | | | |]; destruct b as [|[]| | | | | | | |]; reflexivity. Qed.

Theorem or3_link : forall a b, embt (S.or3 a b) = v_or (embt a) (embt b).
Proof. intros a b. destruct a as [|[]| | | | | | | |]; destruct b as [|[]| | | | | | | |]; reflexivity. Qed.

Lemma of_opt_link : forall o, embt (S.of_opt o) = ob o.
Proof. destruct o; reflexivity. Qed.

(* the binary operators of build_eq .. build_or, as dispatched by C01's binop_eval *)
Definition v_op (o : S.binop) : option (value -> value -> value) :=
  match o with
  | S.Eq => Some v_eq | S.Ne => Some v_ne
  | S.Lt => Some v_lt | S.Le => Some v_le | S.Gt => Some v_gt | S.Ge => Some v_ge
  | S.And => Some v_and | S.Or => Some v_or
  | _ => None
  end.

Theorem binop_link : forall o g a b, v_op o = Some g -> S.poisoned a b = false ->
  embt (S.binop_eval o a b) = g (embt a) (embt b).
Proof.
  intros o g a b Ho Hp. unfold S.binop_eval. rewrite Hp.
  destruct o; cbn [v_op] in Ho; try discriminate; injection Ho as <-.
  - rewrite of_opt_link, veq_link. reflexivity.
  - rewrite veq_link. unfold v_ne. destruct (teq (embt a) (embt b)); reflexivity.
  - apply cmp_lt_link.
  - apply cmp_le_link.
  - apply cmp_gt_link.
  - apply cmp_ge_link.
  - apply and3_link.
  - apply or3_link.
Qed.

(* ================= between and in-range ================= *)

Lemma within_num : forall (lc rc : bool) x l h,
  (if lc then S.num_leb l x else S.num_ltb l x) && (if rc then S.num_leb x h else S.num_ltb x h) =
  within lc rc (ncmp (D.sval x) (D.expo x) (D.sval l) (D.expo l)) (ncmp (D.sval x) (D.expo x) (D.sval h) (D.expo h)).
Proof.
  intros. rewrite !num_leb_link, !num_ltb_link. unfold within.
  rewrite (ncmp_antisym (D.sval x) (D.expo x) (D.sval l) (D.expo l)), opp_is_le, opp_is_lt.
  destruct lc, rc; reflexivity.
Qed.

Lemma within_str : forall (lc rc : bool) x l h,
  (if lc then S.str_leb l x else S.str_ltb l x) && (if rc then S.str_leb x h else S.str_ltb x h) =
  within lc rc (lcmp x l) (lcmp x h).
Proof.
  intros. rewrite !str_leb_link, !str_ltb_link. unfold within.
  rewrite (lcmp_antisym x l), opp_is_le, opp_is_lt.
  destruct lc, rc; reflexivity.
Qed.

Theorem in_range_link : forall x lo lc hi hc,
  embt (S.in_range x lo lc hi hc) = in_range (embt x) (embt (S.VRange lo lc hi hc)).
Proof.
  intros x lo lc hi hc. cbn [embt]. unfold in_range, in_range_gen.
  destruct x; try (destruct lo; destruct hi; reflexivity).
  - destruct lo; try (destruct hi; reflexivity). destruct hi; try reflexivity.
    cbn [S.in_range embt in_bounds_gen]. rewrite within_num. reflexivity.
  - destruct lo; try (destruct hi; reflexivity). destruct hi; try reflexivity.
    cbn [S.in_range embt in_bounds_gen]. rewrite within_str. reflexivity.
Qed.

Theorem between_link : forall x lo hi,
  not_poison x = true -> not_poison lo = true -> not_poison hi = true ->
  embt (S.between_eval x lo hi) = v_between (embt x) (embt lo) (embt hi).
Proof.
  intros x lo hi Hx Hl Hh. unfold v_between, v_between_gen.
  destruct x; try discriminate; try (destruct lo; try discriminate; destruct hi; try discriminate; reflexivity).
  - destruct lo; try discriminate; try (destruct hi; try discriminate; reflexivity). destruct hi; try discriminate; try reflexivity.
    cbn [S.between_eval embt in_bounds_gen]. rewrite <- within_num. reflexivity.
  - destruct lo; try discriminate; try (destruct hi; try discriminate; reflexivity). destruct hi; try discriminate; try reflexivity.
    cbn [S.between_eval embt in_bounds_gen]. rewrite <- within_str. reflexivity.
Qed.

(* ================= the `in` operator (build_in, eval_in_list, eval_in_list_in_list, eval_in_equal) ================= *)

Lemma in_equal_link : forall x y, VBool (S.in_equal x y) = in_equal teq (embt x) (embt y).
Proof. intros. unfold S.in_equal, in_equal. rewrite veq_link. reflexivity. Qed.

Lemma is_true_link : forall v, S.is_true v = is_true (embt v).
Proof. destruct v as [|[]| | | | | | | |]; reflexivity. Qed.

Lemma is_true_in_equal : forall x y, is_true (in_equal teq (embt x) (embt y)) = S.in_equal x y.
Proof. intros. rewrite <- in_equal_link. destruct (S.in_equal x y); reflexivity. Qed.

(* one step of C09's eval_in_list loop *)
Lemma in_list_cons : forall left x xs,
  in_list teq in_range left (VList (x :: xs)) =
  match x with
  | VList _ => if is_true (in_list teq in_range left x) then VBool true else in_list teq in_range left (VList xs)
  | VRange _ _ _ _ => if is_true (in_range left x) then VBool true else in_list teq in_range left (VList xs)
  | VNull | VFun _ => VNull
  | _ => if is_true (in_equal teq left x) then VBool true else in_list teq in_range left (VList xs)
  end.
Proof. intros. destruct x; reflexivity. Qed.

Lemma vsize_list_cons : forall x l, S.vsize (S.VList (x :: l)) = (S.vsize x + S.vsize (S.VList l))%nat.
Proof. intros. cbn [S.vsize fold_right]. lia. Qed.

Lemma in_list_link : forall f x items,
  (S.vsize (S.VList items) <= f)%nat -> forallb shared items = true ->
  embt (S.in_list f x items) = in_list teq in_range (embt x) (VList (map embt items)).
Proof.
  induction f as [|f IH]; intros x items Hf Hs.
  - pose proof (vsize_pos (S.VList items)). lia.
  - destruct items as [|it r]; [reflexivity|].
    rewrite vsize_list_cons in Hf. pose proof (vsize_pos it) as Hp.
    cbn [forallb] in Hs. apply andb_true_iff in Hs. destruct Hs as [Hit Hr].
    assert (IHr : embt (S.in_list f x r) = in_list teq in_range (embt x) (VList (map embt r))) by (apply IH; [lia|exact Hr]).
    cbn [map]. rewrite in_list_cons.
    destruct it; try discriminate; cbn [S.in_list embt]; try reflexivity.
    + change (VBool b) with (embt (S.VBool b)).
      rewrite is_true_in_equal. destruct (S.in_equal x (S.VBool b)); [reflexivity|exact IHr].
    + change (VNum (D.sval d) (D.expo d)) with (embt (S.VNum d)).
      rewrite is_true_in_equal. destruct (S.in_equal x (S.VNum d)); [reflexivity|exact IHr].
    + change (VStr s) with (embt (S.VStr s)).
      rewrite is_true_in_equal. destruct (S.in_equal x (S.VStr s)); [reflexivity|exact IHr].
    + (* a list item: searched recursively *)
      assert (IHl : embt (S.in_list f x l) = in_list teq in_range (embt x) (VList (map embt l))).
      { apply IH; [pose proof (vsize_pos (S.VList r)); lia|]. exact Hit. }
      rewrite <- IHl, <- is_true_link. destruct (S.is_true (S.in_list f x l)); [reflexivity|exact IHr].
    + (* a context item *)
      change (VCtx (map (fun e : N * S.value => (key (fst e), embt (snd e))) es)) with (embt (S.VCtx es)).
      rewrite is_true_in_equal.
      destruct (S.in_equal x (S.VCtx es)); [reflexivity|exact IHr].
    + (* a range item *)
      change (VRange (embt it1) lc (embt it2) hc) with (embt (S.VRange it1 lc it2 hc)).
      rewrite <- in_range_link, <- is_true_link.
      destruct (S.is_true (S.in_range x it1 lc it2 hc)); [reflexivity|exact IHr].
Qed.

Lemma remove_first_link : forall x ys,
  take_match teq (embt x) (map embt ys) = option_map (map embt) (S.remove_first x ys).
Proof.
  intros x. induction ys as [|y ys IH]; cbn [S.remove_first take_match map option_map]; [reflexivity|].
  rewrite is_true_in_equal. destruct (S.in_equal x y); [reflexivity|].
  rewrite IH. destruct (S.remove_first x ys); reflexivity.
Qed.

Lemma sub_multiset_link : forall xs ys, S.sub_multiset xs ys = all_taken teq (map embt xs) (map embt ys).
Proof.
  induction xs as [|x xs IH]; intros ys; cbn [S.sub_multiset all_taken map]; [reflexivity|].
  rewrite remove_first_link. destruct (S.remove_first x ys) as [ys'|]; cbn [option_map]; [apply IH|reflexivity].
Qed.

Lemma in_list_in_list_link : forall xs items,
  embt (S.in_list_in_list xs items) = in_list_in_list teq (map embt xs) (map embt items).
Proof.
  intros xs items. unfold S.in_list_in_list.
  induction items as [|it r IH]; [reflexivity|].
  cbn [find map]. destruct it; cbn [embt in_list_in_list]; try exact IH.
  rewrite sub_multiset_link. reflexivity.
Qed.

(* a shared value contains no VPoison *)
Lemma shared_has_no_poison : forall f v, (S.vsize v <= f)%nat -> shared v = true -> S.has_poison f v = false.
Proof.
  induction f as [|f IH]; intros v Hf Hs.
  - pose proof (vsize_pos v). lia.
  - destruct v; try reflexivity; try discriminate; cbn [S.has_poison].
    + cbn [shared] in Hs. rewrite forallb_forall in Hs.
      destruct (existsb (S.has_poison f) l) eqn:E; [|reflexivity].
      apply existsb_exists in E. destruct E as [u [Hu Hpu]].
      rewrite (IH u) in Hpu; [discriminate| |apply Hs; exact Hu].
      pose proof (vsize_in_list u l Hu). lia.
    + cbn [shared] in Hs. rewrite forallb_forall in Hs.
      destruct (existsb (fun e => S.has_poison f (snd e)) es) eqn:E; [|reflexivity].
      apply existsb_exists in E. destruct E as [e [He Hpe]].
      rewrite (IH (snd e)) in Hpe; [discriminate| |apply Hs; exact He].
      pose proof (vsize_in_ctx e es He). lia.
    + cbn [shared] in Hs. apply andb_true_iff in Hs. destruct Hs as [H1 H2].
      cbn [S.vsize] in Hf. rewrite (IH v1), (IH v2); auto; lia.
Qed.

Lemma shared_poison : forall v, shared v = true -> S.poison v = false.
Proof. intros v H. unfold S.poison. apply shared_has_no_poison; auto. Qed.

Theorem in_eval_link : forall x r, shared x = true -> shared r = true ->
  embt (S.in_eval x r) = v_in (embt x) (embt r).
Proof.
  intros x r Hx Hr. unfold S.in_eval. rewrite (shared_poison x Hx), (shared_poison r Hr). cbn [orb].
  unfold v_in, v_in_gen. destruct r; try discriminate; try reflexivity.
  - change (VBool b) with (embt (S.VBool b)). rewrite <- in_equal_link. reflexivity.
  - change (VNum (D.sval d) (D.expo d)) with (embt (S.VNum d)). rewrite <- in_equal_link. reflexivity.
  - change (VStr s) with (embt (S.VStr s)). rewrite <- in_equal_link. reflexivity.
  - (* right operand a list *)
    rewrite embt_list. destruct x; try discriminate;
      try (rewrite in_list_link; [reflexivity|cbn [S.vsize]; lia|exact Hr]).
    rewrite embt_list. apply in_list_in_list_link.
  - rewrite embt_ctx, <- (embt_ctx es), <- in_equal_link. reflexivity.
  - apply in_range_link.
Qed.

(* ================= well-formed contexts ================= *)

Lemma keys_sorted_key : forall ks, keys_sorted (map key ks) = asc ks.
Proof.
  induction ks as [|k r IH]; [reflexivity|].
  cbn [map]. destruct r as [|k' r']; [reflexivity|].
  cbn [map] in *. cbn [keys_sorted asc]. cbn [keys_sorted] in IH. rewrite IH, key_cmp.
  unfold N.ltb. destruct (N.compare k k'); reflexivity.
Qed.

Lemma wfv_embt : forall v, swf v = true -> wfv (embt v) = true.
Proof.
  intros v. pattern v. apply svalue_rect'; clear v.
  - intros l IH H. rewrite embt_list. cbn [wfv swf] in *.
    rewrite forallb_forall in *. rewrite Forall_forall in IH.
    intros y Hy. apply in_map_iff in Hy. destruct Hy as [u [<- Hu]]. apply IH; auto.
  - intros es IH H. rewrite embt_ctx. cbn [wfv swf] in *.
    apply andb_true_iff in H. destruct H as [Ha Hs]. apply andb_true_iff. split.
    + rewrite map_map. cbn [embe fst]. rewrite <- (map_map fst key). rewrite keys_sorted_key. exact Ha.
    + rewrite forallb_forall in *. rewrite Forall_forall in IH.
      intros y Hy. apply in_map_iff in Hy. destruct Hy as [e [<- He]]. cbn [embe snd]. apply IH; auto.
  - intros lo lc hi hc IH1 IH2 H. cbn [embt wfv swf] in *.
    apply andb_true_iff in H. destruct H as [H1 H2]. rewrite IH1, IH2; auto.
  - intros o v _ _. reflexivity.
  - intros v Hv _. destruct v; try contradiction; reflexivity.
Qed.

(* ================= the laws of the C09 model, transferred to the evaluator model of C01 ================= *)

Definition s_tri (v : S.value) : Prop := match v with S.VNull | S.VBool _ => True | _ => False end.

Lemma embt_tri_inj : forall u w, s_tri u -> s_tri w -> embt u = embt w -> u = w.
Proof. intros u w Hu Hw H. destruct u; try contradiction; destruct w; try contradiction; try discriminate; auto. injection H as ->. reflexivity. Qed.

Lemma embt_bool_inv : forall u t, embt u = VBool t -> u = S.VBool t.
Proof. intros u t H. destruct u; try discriminate. injection H as ->. reflexivity. Qed.

Lemma cmp_lt_tri : forall a b, s_tri (S.cmp_lt a b). Proof. intros a b. destruct a; destruct b; exact I. Qed.
Lemma cmp_le_tri : forall a b, s_tri (S.cmp_le a b). Proof. intros a b. destruct a; destruct b; exact I. Qed.
Lemma and3_tri : forall a b, s_tri (S.and3 a b).
Proof. intros a b. destruct a as [|[]| | | | | | | |]; destruct b as [|[]| | | | | | | |]; exact I. Qed.
Lemma or3_tri : forall a b, s_tri (S.or3 a b).
Proof. intros a b. destruct a as [|[]| | | | | | | |]; destruct b as [|[]| | | | | | | |]; exact I. Qed.
Lemma in_range_tri : forall x lo lc hi hc, s_tri (S.in_range x lo lc hi hc).
Proof. intros. destruct x; destruct lo; destruct hi; exact I. Qed.
Lemma between_tri : forall x lo hi, not_poison x = true -> not_poison lo = true -> not_poison hi = true -> s_tri (S.between_eval x lo hi).
Proof. intros x lo hi Hx Hl Hh. destruct x; try discriminate; destruct lo; try discriminate; destruct hi; try discriminate; exact I. Qed.

(* a = b and b = a give the same answer, for all values of any nesting depth whose contexts have ascending keys *)
Theorem S_veq_sym : forall a b, swf a = true -> swf b = true -> S.veq a b = S.veq b a.
Proof. intros a b Ha Hb. rewrite !veq_link. apply teq_sym; apply wfv_embt; assumption. Qed.

Theorem S_eq_sym : forall a b, swf a = true -> swf b = true -> S.poisoned a b = false ->
  S.binop_eval S.Eq a b = S.binop_eval S.Eq b a.
Proof.
  intros a b Ha Hb Hp. unfold S.binop_eval. rewrite Hp.
  assert (Hp' : S.poisoned b a = false) by (destruct a; destruct b; try reflexivity; discriminate).
  rewrite Hp', (S_veq_sym a b Ha Hb). reflexivity.
Qed.

(* both numbers or both strings *)
Definition s_ordered_pair (a b : S.value) : Prop :=
  match a, b with S.VNum _, S.VNum _ | S.VStr _, S.VStr _ => True | _, _ => False end.
Definition s_ordered_triple (x a b : S.value) : Prop := s_ordered_pair x a /\ s_ordered_pair x b.

Lemma s_ordered_pair_emb : forall a b, s_ordered_pair a b -> ordered_pair (embt a) (embt b).
Proof. intros a b H. destruct a; destruct b; try contradiction; exact I. Qed.

Definition s_exactly_one (x y z : S.value) : Prop :=
  (x = S.VBool true /\ y = S.VBool false /\ z = S.VBool false) \/
  (x = S.VBool false /\ y = S.VBool true /\ z = S.VBool false) \/
  (x = S.VBool false /\ y = S.VBool false /\ z = S.VBool true).

Theorem S_trichotomy : forall a b, s_ordered_pair a b ->
  s_exactly_one (S.binop_eval S.Lt a b) (S.binop_eval S.Eq a b) (S.binop_eval S.Gt a b).
Proof.
  intros a b H. pose proof (trichotomy _ _ (s_ordered_pair_emb a b H)) as T.
  assert (Hp : S.poisoned a b = false) by (destruct a; destruct b; try contradiction; reflexivity).
  rewrite <- (binop_link S.Lt v_lt a b eq_refl Hp), <- (binop_link S.Eq v_eq a b eq_refl Hp),
          <- (binop_link S.Gt v_gt a b eq_refl Hp) in T.
  unfold exactly_one in T. unfold s_exactly_one.
  destruct T as [(T1 & T2 & T3)|[(T1 & T2 & T3)|(T1 & T2 & T3)]];
    apply embt_bool_inv in T1; apply embt_bool_inv in T2; apply embt_bool_inv in T3; tauto.
Qed.

Theorem S_le_iff_lt_or_eq : forall a b, s_ordered_pair a b ->
  S.cmp_le a b = S.or3 (S.cmp_lt a b) (S.of_opt (S.veq a b)).
Proof.
  intros a b H. apply embt_tri_inj; [apply cmp_le_tri|apply or3_tri|].
  rewrite cmp_le_link, or3_link, cmp_lt_link, of_opt_link, veq_link.
  apply (le_iff_lt_or_eq _ _ (s_ordered_pair_emb a b H)).
Qed.

Theorem S_between_is_conjunction : forall x a b, s_ordered_triple x a b ->
  S.between_eval x a b = S.and3 (S.cmp_le a x) (S.cmp_le x b).
Proof.
  intros x a b [H1 H2].
  assert (Hx : not_poison x = true) by (destruct x; try contradiction; reflexivity).
  assert (Ha : not_poison a = true) by (destruct x; destruct a; try contradiction; reflexivity).
  assert (Hb : not_poison b = true) by (destruct x; destruct b; try contradiction; reflexivity).
  apply embt_tri_inj; [apply between_tri; assumption|apply and3_tri|].
  rewrite between_link, and3_link, !cmp_le_link by assumption.
  apply between_iff_conj. split; apply s_ordered_pair_emb; assumption.
Qed.

Theorem S_between_is_in_closed_range : forall x a b,
  not_poison x = true -> not_poison a = true -> not_poison b = true ->
  S.between_eval x a b = S.in_range x a true b true.
Proof.
  intros x a b Hx Ha Hb. apply embt_tri_inj; [apply between_tri; assumption|apply in_range_tri|].
  rewrite between_link, in_range_link by assumption. reflexivity.
Qed.

Theorem S_in_range_is_conjunction : forall x a b (lc rc : bool), s_ordered_triple x a b ->
  S.in_range x a lc b rc = S.and3 ((if lc then S.cmp_le else S.cmp_lt) a x) ((if rc then S.cmp_le else S.cmp_lt) x b).
Proof.
  intros x a b lc rc [H1 H2].
  apply embt_tri_inj; [apply in_range_tri|apply and3_tri|].
  rewrite in_range_link, and3_link.
  pose proof (in_range_iff_conj (embt x) (embt a) (embt b) lc rc
                (conj (s_ordered_pair_emb _ _ H1) (s_ordered_pair_emb _ _ H2))) as T.
  unfold v_in, v_in_gen in T. cbn [embt]. rewrite T.
  destruct lc, rc; rewrite ?cmp_le_link, ?cmp_lt_link; reflexivity.
Qed.

(* ================= the statements in terms of `emb` ================= *)

Lemma emb_of_tri : forall v, s_tri v -> emb v = Some (embt v).
Proof. intros v H. apply emb_some. split; [|reflexivity]. destruct v; try contradiction; reflexivity. Qed.

Lemma shared_not_poisoned : forall a b, shared a = true -> shared b = true -> S.poisoned a b = false.
Proof. intros a b Sa Sb. apply shared_not_poison in Sa, Sb. destruct a; destruct b; try reflexivity; discriminate. Qed.

Lemma binop_tri : forall o g a b, v_op o = Some g -> S.poisoned a b = false -> s_tri (S.binop_eval o a b).
Proof.
  intros o g a b Ho Hp. unfold S.binop_eval. rewrite Hp.
  destruct o; cbn [v_op] in Ho; try discriminate.
  - destruct (S.veq a b); exact I.
  - destruct (S.veq a b); exact I.
  - apply cmp_lt_tri. - apply cmp_le_tri. - apply cmp_lt_tri. - apply cmp_le_tri. - apply and3_tri. - apply or3_tri.
Qed.

Theorem operator_is_evaluator_operator : forall o g a b a' b', v_op o = Some g ->
  emb a = Some a' -> emb b = Some b' -> emb (S.binop_eval o a b) = Some (g a' b').
Proof.
  intros o g a b a' b' Ho Ha Hb. apply emb_some in Ha, Hb. destruct Ha as [Sa ->]. destruct Hb as [Sb ->].
  pose proof (shared_not_poisoned a b Sa Sb) as Hp.
  rewrite (emb_of_tri _ (binop_tri o g a b Ho Hp)). f_equal. apply binop_link; assumption.
Qed.

Theorem equality_is_evaluator_equality : forall a b a' b', emb a = Some a' -> emb b = Some b' ->
  S.veq a b = teq a' b' /\ emb (S.binop_eval S.Eq a b) = Some (v_eq a' b') /\ emb (S.binop_eval S.Ne a b) = Some (v_ne a' b').
Proof.
  intros a b a' b' Ha Hb. split; [|split].
  - apply emb_some in Ha, Hb. destruct Ha as [_ ->]. destruct Hb as [_ ->]. apply veq_link.
  - apply (operator_is_evaluator_operator S.Eq v_eq a b a' b' eq_refl Ha Hb).
  - apply (operator_is_evaluator_operator S.Ne v_ne a b a' b' eq_refl Ha Hb).
Qed.

Theorem orderings_are_evaluator_orderings : forall a b a' b', emb a = Some a' -> emb b = Some b' ->
  emb (S.binop_eval S.Lt a b) = Some (v_lt a' b') /\ emb (S.binop_eval S.Le a b) = Some (v_le a' b') /\
  emb (S.binop_eval S.Gt a b) = Some (v_gt a' b') /\ emb (S.binop_eval S.Ge a b) = Some (v_ge a' b') /\
  emb (S.binop_eval S.And a b) = Some (v_and a' b') /\ emb (S.binop_eval S.Or a b) = Some (v_or a' b').
Proof.
  intros a b a' b' Ha Hb.
  repeat split; [apply (operator_is_evaluator_operator S.Lt v_lt)|apply (operator_is_evaluator_operator S.Le v_le)
                |apply (operator_is_evaluator_operator S.Gt v_gt)|apply (operator_is_evaluator_operator S.Ge v_ge)
                |apply (operator_is_evaluator_operator S.And v_and)|apply (operator_is_evaluator_operator S.Or v_or)]; auto.
Qed.

Theorem comparisons_are_evaluator_comparisons : forall a b a' b', emb a = Some a' -> emb b = Some b' ->
  emb (S.cmp_lt a b) = Some (v_lt a' b') /\ emb (S.cmp_le a b) = Some (v_le a' b') /\
  emb (S.cmp_lt b a) = Some (v_gt a' b') /\ emb (S.cmp_le b a) = Some (v_ge a' b') /\
  emb (S.and3 a b) = Some (v_and a' b') /\ emb (S.or3 a b) = Some (v_or a' b').
Proof.
  intros a b a' b' Ha Hb. apply emb_some in Ha, Hb. destruct Ha as [Sa ->]. destruct Hb as [Sb ->].
  assert (T : forall v, s_tri v -> shared v = true) by (intros v Hv; destruct v; try contradiction; reflexivity).
  repeat split; apply emb_some; split;
    try (apply T; first [apply cmp_lt_tri|apply cmp_le_tri|apply and3_tri|apply or3_tri]); symmetry.
  - apply cmp_lt_link. - apply cmp_le_link. - apply cmp_gt_link. - apply cmp_ge_link. - apply and3_link. - apply or3_link.
Qed.

Theorem between_in_are_evaluator_between_in : forall x lo hi x' lo' hi' (lc hc : bool),
  emb x = Some x' -> emb lo = Some lo' -> emb hi = Some hi' ->
  emb (S.between_eval x lo hi) = Some (v_between x' lo' hi') /\
  emb (S.in_range x lo lc hi hc) = Some (in_range x' (VRange lo' lc hi' hc)) /\
  emb (S.in_eval x (S.VRange lo lc hi hc)) = Some (v_in x' (VRange lo' lc hi' hc)).
Proof.
  intros x lo hi x' lo' hi' lc hc Hx Hl Hh. apply emb_some in Hx, Hl, Hh.
  destruct Hx as [Sx ->]. destruct Hl as [Sl ->]. destruct Hh as [Sh ->].
  assert (T : forall v, s_tri v -> shared v = true) by (intros v Hv; destruct v; try contradiction; reflexivity).
  pose proof (shared_not_poison _ Sx) as Px. pose proof (shared_not_poison _ Sl) as Pl. pose proof (shared_not_poison _ Sh) as Ph.
  assert (Sr : shared (S.VRange lo lc hi hc) = true) by (cbn [shared]; rewrite Sl, Sh; reflexivity).
  split; [|split]; apply emb_some; split.
  - apply T. apply between_tri; assumption.
  - symmetry. apply between_link; assumption.
  - apply T. apply in_range_tri.
  - symmetry. apply (in_range_link x lo lc hi hc).
  - unfold S.in_eval. rewrite (shared_poison x Sx), (shared_poison _ Sr). cbn [orb]. apply T. apply in_range_tri.
  - symmetry. apply (in_eval_link x (S.VRange lo lc hi hc) Sx Sr).
Qed.

Lemma s_in_list_tri : forall f x items, s_tri (S.in_list f x items).
Proof.
  induction f as [|f IH]; intros x items; [exact I|].
  destruct items as [|it r]; [exact I|].
  destruct it; cbn [S.in_list]; try exact I;
    match goal with |- s_tri (if ?c then _ else _) => destruct c end; try exact I; apply IH.
Qed.

Lemma s_in_eval_tri : forall x r, S.poison x || S.poison r = false -> s_tri (S.in_eval x r).
Proof.
  intros x r Hp. unfold S.in_eval. rewrite Hp. destruct r; try exact I.
  - destruct x; try apply s_in_list_tri. unfold S.in_list_in_list.
    destruct (find _ l) as [[]|]; exact I.
  - apply in_range_tri.
  - destruct o; cbn [S.in_unary]; first [apply cmp_lt_tri|apply cmp_le_tri].
Qed.

Theorem in_is_evaluator_in : forall x r x' r', emb x = Some x' -> emb r = Some r' ->
  emb (S.in_eval x r) = Some (v_in x' r').
Proof.
  intros x r x' r' Hx Hr. apply emb_some in Hx, Hr. destruct Hx as [Sx ->]. destruct Hr as [Sr ->].
  rewrite emb_of_tri.
  - f_equal. apply in_eval_link; assumption.
  - apply s_in_eval_tri. rewrite (shared_poison x Sx), (shared_poison r Sr). reflexivity.
Qed.

(* ================= non-vacuity ================= *)
Definition sn (c e : Z) : S.value := S.VNum (D.of_Z c e).

Lemma link_nonvacuous :
  let a := S.VCtx [(1%N, S.VList [sn 1 0; S.VNull; S.VRange (sn (-5) 0) true (S.VStr [97%N]) false]); (2%N, S.VCtx [(3%N, S.VStr [233%N])])] in
  let b := S.VCtx [(1%N, S.VList [sn 10 (-1); S.VNull; S.VRange (sn (-5) 0) true (S.VStr [97%N]) false]); (2%N, S.VCtx [(3%N, S.VStr [233%N])])] in
  swf a = true /\ swf b = true /\
  emb a = Some (VCtx [([1%N], VList [VNum 1 0; VNull; VRange (VNum (-5) 0) true (VStr [97%N]) false]); ([2%N], VCtx [([3%N], VStr [233%N])])]) /\
  (exists b', emb b = Some b') /\
  S.veq a b = Some false /\ S.veq (S.VList [sn 1 0; S.VNull]) (S.VList [sn 10 (-1); S.VNull]) = Some true /\
  emb (S.VUnary S.CLt (sn 1 0)) = None /\ emb (S.VList [S.VPoison]) = None /\
  s_ordered_triple (sn 15 (-1)) (sn 1 0) (sn 200 (-2)) /\
  S.between_eval (sn 15 (-1)) (sn 1 0) (sn 200 (-2)) = S.VBool true /\
  S.in_range (sn 200 (-2)) (sn 1 0) true (sn 2 0) false = S.VBool false /\
  S.in_eval (sn 2 0) (S.VList [S.VList [sn 1 0]; S.VRange (sn 1 0) false (sn 20 (-1)) true]) = S.VBool true.
Proof. cbn zeta. repeat split; try (vm_compute; reflexivity). eexists. vm_compute. reflexivity. Qed.
