(* C05 — FEEL parsing and evaluation are total: property theorems only.  Proofs: C05/Proofs.v, C05/Odometer.v, C05/LrBounds.v, C05/LrDriver.v,
   C05/LrTermination.v, C05/LrTermDriver.v, C05/LexProgress.v.
   PARTIAL by nature: the theorems cover the machine-integer arithmetic, vector indexing and loop logic of the anchored code
   (model C05/Model.v, both the build with overflow checks, Debug, and the one without, Release); what the model cannot exhibit —
   stack depth, the allocator, the regex engine, chrono / chrono-tz internals, the C decNumber kernel —
   is observed by the totality run of props/c05.py, not proved.  Termination of the LR loop and progress of the lexer ARE proved (section
   TERMINATION below) for the driver / lexer models, which the checks of C05 and C06 compare with the real parser and lexer.
   valid_len len: 0 <= len <= isize::MAX (every Vec / String length). *)
From Coq Require Import ZArith List Bool.
From DV Require Import C05.Model C05.Proofs C05.Odometer C05.LrBounds C05.LrDriver Gen.LalrTables Gen.LalrTokens.
Import ListNotations.
Open Scope Z_scope.

(* ---- built-in functions that compute positions: no panic for all lengths, positions and lengths-to-take, in both builds *)
Theorem C05_sublist3_no_panic : forall b len pos l, valid_len len -> sublist3 b len pos l <> Panic.
Proof. exact sublist3_no_panic. Qed.
Theorem C05_sublist2_no_panic : forall b len pos, valid_len len -> sublist2 b len pos <> Panic.
Proof. exact sublist2_no_panic. Qed.
Theorem C05_substring3_no_panic : forall b len start l, valid_len len -> substring3 b len start l <> Panic.
Proof. exact substring3_no_panic. Qed.
Theorem C05_substring2_no_panic : forall b len start, valid_len len -> substring2 b len start <> Panic.
Proof. exact substring2_no_panic. Qed.
Theorem C05_insert_before_no_panic : forall b len pos, valid_len len -> insert_before b len pos <> Panic.
Proof. exact insert_before_no_panic. Qed.
Theorem C05_remove_no_panic : forall b len pos, valid_len len -> remove b len pos <> Panic.
Proof. exact remove_no_panic. Qed.
Theorem C05_filter_index_no_panic : forall b len i, valid_len len -> filter_index b len i <> Panic.
Proof. exact filter_index_no_panic. Qed.

(* ---- the answer is the same whether or not the build checks arithmetic overflow *)
Theorem C05_sublist3_build_independent : forall len pos l, valid_len len -> sublist3 Debug len pos l = sublist3 Release len pos l.
Proof. exact sublist3_build_independent. Qed.
Theorem C05_sublist2_build_independent : forall len pos, valid_len len -> sublist2 Debug len pos = sublist2 Release len pos.
Proof. exact sublist2_build_independent. Qed.
Theorem C05_substring3_build_independent : forall len start l, valid_len len -> substring3 Debug len start l = substring3 Release len start l.
Proof. exact substring3_build_independent. Qed.
Theorem C05_substring2_build_independent : forall len start, valid_len len -> substring2 Debug len start = substring2 Release len start.
Proof. exact substring2_build_independent. Qed.
Theorem C05_insert_before_build_independent : forall len pos, valid_len len -> insert_before Debug len pos = insert_before Release len pos.
Proof. exact insert_before_build_independent. Qed.
Theorem C05_remove_build_independent : forall len pos, valid_len len -> remove Debug len pos = remove Release len pos.
Proof. exact remove_build_independent. Qed.
Theorem C05_filter_index_build_independent : forall len i, valid_len len -> filter_index Debug len i = filter_index Release len i.
Proof. exact filter_index_build_independent. Qed.

(* ---- every index handed to a slice / insert / remove / get is inside the collection *)
Theorem C05_sublist3_in_bounds : forall b len pos l f la, valid_len len -> sublist3 b len pos l = Slice f la -> 0 <= f <= la /\ la <= len.
Proof. exact sublist3_in_bounds. Qed.
Theorem C05_sublist2_in_bounds : forall b len pos f la, valid_len len -> sublist2 b len pos = Slice f la -> 0 <= f <= la /\ la <= len.
Proof. exact sublist2_in_bounds. Qed.
Theorem C05_substring3_in_bounds : forall b len start l f la, valid_len len -> substring3 b len start l = Slice f la -> 0 <= f <= la /\ la <= len.
Proof. exact substring3_in_bounds. Qed.
Theorem C05_substring2_in_bounds : forall b len start f la, valid_len len -> substring2 b len start = Slice f la -> 0 <= f <= la /\ la <= len.
Proof. exact substring2_in_bounds. Qed.
Theorem C05_insert_before_in_bounds : forall b len pos a, valid_len len -> insert_before b len pos = Inserted a -> 0 <= a <= len.
Proof. exact insert_before_in_bounds. Qed.
Theorem C05_remove_in_bounds : forall b len pos a, valid_len len -> remove b len pos = Removed a -> 0 <= a < len.
Proof. exact remove_in_bounds. Qed.
Theorem C05_filter_index_in_bounds : forall b len i a, valid_len len -> filter_index b len i = Item a -> 0 <= a < len.
Proof. exact filter_index_in_bounds. Qed.

(* ---- years and months duration literals: for all digit groups and signs *)
Theorem C05_ym_parse_no_panic : forall b y m neg, ym_parse b y m neg <> YmPanic.
Proof. exact ym_parse_no_panic. Qed.
Theorem C05_ym_parse_build_independent : forall y m neg, ym_parse Debug y m neg = ym_parse Release y m neg.
Proof. exact ym_parse_build_independent. Qed.
Theorem C05_ym_parse_value : forall b y m neg t, ym_parse b (Some y) (Some m) neg = YmOk t -> 0 <= y <= usize_max -> 0 <= m <= usize_max ->
  t = (if neg then - (12 * y + m) else 12 * y + m).
Proof. exact ym_parse_value. Qed.
Theorem C05_ym_parse_then_display : forall b y m neg t, ym_parse b y m neg = YmOk t -> ym_display_panics b t = false.
Proof. exact ym_parse_then_display. Qed.
Theorem C05_sci_zero_count : forall b ndigits e, 1 <= ndigits -> 1 <= e -> e + ndigits - 1 <= usize_max -> sci_zero_count b ndigits e = MOk e.
Proof. exact sci_zero_count_ok. Qed.

(* ---- the for / some / every odometer: for every non-empty list of ranges (any isize bounds, either direction) and lists (any length)
        the loop stops after exactly `total` passes without a panic, the passes are the mixed-radix numbers 0 .. total-1 (innermost
        variable fastest), every pass is inside the domains, and equal numbers mean equal index vectors: each combination exactly once *)
Theorem C05_odometer_terminates_and_enumerates : forall states, states <> [] -> Forall initial states ->
  forall fuel, (Z.to_nat (total states) <= fuel)%nat ->
  exists visited, Model.run fuel states [] = Finished visited /\
                  map rank visited = zseq 0 (Z.to_nat (total states)) /\
                  Forall (fun v => Forall wf v /\ same_shape v states) visited.
Proof. exact odometer_terminates_and_enumerates. Qed.
Theorem C05_odometer_rank_injective : forall a b, Forall wf a -> Forall wf b -> same_shape a b -> rank a = rank b -> map digit a = map digit b.
Proof. exact rank_injective. Qed.

(* ---- LALR driver: on the tables of the current lalr.rs every computed index is inside its table
        (all states x all token types the lexer can return; all rules x all uncovered states).  Finite: bound = the table sizes. *)
Theorem C05_lr_tables_in_bounds :
  (forall st c, 0 <= st < nstates -> In c all_token_values -> newstate_ok st c = true) /\
  (forall r top, 1 <= r < nrules -> 0 <= top < nstates -> rule_ok r = true /\ goto_ok r top = true) /\
  state_ok 0 = true /\ state_ok yy_final = true.
Proof. exact lr_tables_in_bounds. Qed.

(* ---- the driver loop itself (every table access checked, out of bounds = ROob): for EVERY sequence of tokens the lexer can return and
        every number of steps the run never leaves a table — the stack only ever holds valid states (induction over the run on top of two
        single-step sweeps).  Termination and the stack-depth invariant (RUnderflow): C05_lr_driver_terminates below. *)
Theorem C05_lr_driver_never_out_of_bounds : forall fuel ss toks, valid_stack ss -> Forall (fun c => In c all_token_values) toks ->
  LrDriver.run fuel ss toks <> ROob.
Proof. exact lr_driver_never_out_of_bounds. Qed.
Theorem C05_lr_parse_never_out_of_bounds : forall fuel toks, Forall (fun c => In c all_token_values) toks -> LrDriver.run fuel [0] toks <> ROob.
Proof. exact lr_parse_never_out_of_bounds. Qed.
Example C05_lr_driver_examples :
  LrDriver.run 200 [0] [tok_StartExpression; tok_Numeric; tok_Plus; tok_Numeric] = RAccept /\ LrDriver.run 200 [0] [tok_StartExpression; tok_Plus] = RError.
Proof. exact lr_driver_examples. Qed.

(* ==== TERMINATION of the parser front end (C05.LrTermModel / LrTermination / LrTermDriver / LexProgress).  Finite checks on the tables
        regenerated from feel-parser/src/lalr.rs (re-proved whenever lalr.rs changes), lifted to EVERY token sequence / every text. *)
From DV Require C06.Model C06.Lexer C06.Lr C06.Actions C06.ActionsAutomaton C06.ActionsGlobal C10.Model.
From DV Require C05.DtdSum.
From DV Require Import C05.LrTermModel C05.LrTermination C05.LrTermDriver C05.LexProgressModel C05.LexProgress.

(* ---- the loop of Parser::parse on the state stack alone (kstep / krun: shift, reduce + goto, default reductions, accept, error, over the
        regenerated tables): for EVERY sequence of lookaheads the lexer can deliver (its error token, or a terminal of the grammar: lok) the
        loop started in state 0 ends within fuel_bound n = 27 (n + 1) + 3 turns, n = number of tokens, and never finds the stack shorter than
        the right-hand side it pops (KRStuck).  Weight argument: a shift adds at most W = 8, a reduction by a non-empty rule takes away at
        least 1, at most K = 2 reductions of empty rules (mid-rule actions) follow each other under one lookahead. *)
Theorem C05_lr_loop_terminates : forall ls fuel, Forall lok ls -> (fuel_bound (length ls) <= fuel)%nat ->
  krun fuel [0] ls <> KRFuel /\ krun fuel [0] ls <> KRStuck.
Proof. exact krun_parse_terminates. Qed.
Theorem C05_lr_fuel_bound : forall n, fuel_bound n = (27 * (n + 1) + 3)%nat.
Proof. exact fuel_bound_value. Qed.
(* from any state stack that is a path of the automaton (links: C06.ActionsGlobal), with the measure as the bound *)
Theorem C05_lr_loop_terminates_from : forall fuel ss xs ls, ActionsGlobal.links ss xs -> Forall lok ls -> (measure xs ss ls < fuel)%nat ->
  krun fuel ss ls <> KRFuel /\ krun fuel ss ls <> KRStuck.
Proof. exact krun_terminates. Qed.

(* ---- the full parser model of C06 (Actions.frun: the three stacks and all 90 semantic actions; compared with the real parser on ~5.6 k token
        lists per run of C06): on every list of lexer-shaped tokens it never runs out of fuel_bound turns; the 40 turns per token it gives
        itself are never used up; with C06_parse_full_safe: the outcome is a tree or a syntax error, nothing else. *)
Theorem C05_parser_terminates : forall toks fuel, Forall ActionsGlobal.tok_ok toks -> (fuel_bound (length toks) <= fuel)%nat ->
  Actions.frun fuel Actions.pstate0 toks <> Actions.FFuel.
Proof. exact frun_terminates. Qed.
Theorem C05_parse_res_never_out_of_fuel : forall toks, Forall ActionsGlobal.tok_ok toks -> Actions.parse_res toks <> Actions.FFuel.
Proof. exact parse_res_terminates. Qed.
Theorem C05_parse_full_total : forall toks, Forall ActionsGlobal.tok_ok toks ->
  (exists t, Actions.parse_res toks = Actions.FAccept t) \/ Actions.parse_res toks = Actions.FSyntax.
Proof. exact parse_res_total. Qed.
Theorem C05_parse_trace_never_out_of_fuel : forall toks, Forall ActionsGlobal.tok_ok toks -> fst (Actions.parse_trace toks) <> Actions.FFuel.
Proof. exact parse_trace_terminates. Qed.
(* the syntax-tree driver behind C06_tables_pairs / _triples *)
Theorem C05_lr_cst_driver_terminates : forall toks : list Lr.ltok,
  Forall (fun t => In (ActionsAutomaton.sym_of (fst t)) ActionsAutomaton.all_syms) toks ->
  Lr.lr_parse toks <> Lr.OutOfFuel /\ Lr.lr_parse toks <> Lr.Stuck.
Proof. exact lr_parse_terminates. Qed.

(* ---- the checked driver of C05 (LrDriver.run): for every sequence of token types of the lexer and fuel_bound turns or more the run ends with
        accept or a syntax error -- not out of fuel, not RUnderflow (state stack shorter than the right-hand side), not ROob.  This closes the
        two items C05_lr_driver_never_out_of_bounds left open. *)
Theorem C05_lr_driver_terminates : forall toks fuel, Forall (fun c => In c all_token_values) toks -> (fuel_bound (length toks) <= fuel)%nat ->
  LrDriver.run fuel [0] toks = RAccept \/ LrDriver.run fuel [0] toks = RError.
Proof. exact lr_driver_terminates. Qed.
Example C05_lr_driver_terminates_example :
  let toks := [tok_StartExpression; tok_LeftBracket; tok_Numeric; tok_Comma; tok_Numeric; tok_Comma; tok_Numeric; tok_RightBracket] in
  fuel_bound (length toks) = 246%nat /\ LrDriver.run 246 [0] toks = RAccept /\
  LrDriver.run 30 [0] toks = RAccept /\ LrDriver.run 29 [0] toks = RFuel.
Proof. exact lr_driver_terminates_example. Qed.
Example C05_parser_terminates_nonvacuous :
  Forall ActionsGlobal.tok_ok parse_sample /\ (exists t, Actions.parse_res parse_sample = Actions.FAccept t) /\
  Actions.frun 20 Actions.pstate0 parse_sample = Actions.FFuel /\ (fuel_bound (length parse_sample) = 192)%nat.
Proof. exact parse_sample_facts. Qed.

(* ---- the lexer (C06.Lexer.next_token, compared with Lexer::next_token token by token on ~8.6 k texts per run of C06): a call that returns a
        token leaves strictly less input, so the token stream of n characters is complete after n + 1 calls; None of lex_go is a lexical error,
        never the fuel; the trace the check compares ends with end-of-input / undefined / error; read_input (skip_layout, one turn per comment)
        ends where nothing is left to skip and more turns change nothing; the part collector of consume_name stops by its break. *)
Theorem C05_next_token_progress : forall keys fl cs t fl' rest,
  Lexer.next_token keys fl cs = Lexer.RTok t fl' rest -> (length rest < length cs)%nat.
Proof. exact next_token_progress. Qed.
Theorem C05_lex_terminates : forall fuel keys fl cs, (length cs < fuel)%nat -> lex_run fuel keys fl cs <> LexFuel.
Proof. exact lex_run_terminates. Qed.
Theorem C05_lex_go_is_lex_run : forall fuel keys fl cs, Lexer.lex_go fuel keys fl cs = lexout_option (lex_run fuel keys fl cs).
Proof. exact lex_go_lex_run. Qed.
Theorem C05_lex_none_is_error : forall keys cs, Lexer.lex keys cs = None -> lex_run (S (length cs)) keys Lexer.flags0 cs = LexFail.
Proof. exact lex_none_is_error. Qed.
Theorem C05_lex_go_fuel : forall fuel keys fl cs, (length cs < fuel)%nat -> Lexer.lex_go fuel keys fl cs = Lexer.lex_from keys fl cs.
Proof. exact lex_go_fuel. Qed.
Theorem C05_lex_trace_complete : forall keys sched cs, exists items last, Lexer.trace keys sched cs = items ++ [last] /\ is_end last = true.
Proof. exact trace_complete. Qed.
Theorem C05_layout_scan_settles : forall f cs, (length cs <= f)%nat -> settled (C06.Model.skip_layout f cs).
Proof. exact skip_layout_settled. Qed.
Theorem C05_layout_scan_fuel : forall f g cs, (length cs <= f)%nat -> (length cs <= g)%nat -> C06.Model.skip_layout f cs = C06.Model.skip_layout g cs.
Proof. exact skip_layout_fuel. Qed.
Theorem C05_name_collector_stops : forall inp pos s p a,
  C10.Model.machine (4 * S (length inp)) inp C10.Model.S1 pos
    {| C10.Model.a_parts := []; C10.Model.a_cps := []; C10.Model.a_cur := [C10.Model.ch inp pos] |} = (s, p, a) ->
  C10.Model.step inp s p a = None.
Proof. exact collect_stops. Qed.
Example C05_lex_progress_example :
  let cs := [49; 32; 47; 42; 32; 99; 32; 42; 47; 32; 43; 32; 97; 98; 32]%N in
  lex_run (S (length cs)) [[97; 98]%N] Lexer.flags0 cs = LexOk [Lexer.LNum [49%N] []; Lexer.LSym Lexer.SPlus; Lexer.LName [97; 98]%N] /\
  lex_run 3 [[97; 98]%N] Lexer.flags0 cs = LexFuel /\
  C06.Model.skip_layout 3 [47; 42; 42; 32; 42; 42; 47; 49]%N = [49%N].
Proof. exact lex_progress_example. Qed.

(* ---- non-vacuity *)
Example C05_nonvacuous :
  valid_len 3 /\ sublist3 Debug 3 (Int (-2)) (Int 2) = Slice 1 3 /\ substring3 Release 3 (Int 2) (Int 1) = Slice 1 2 /\
  remove Debug 3 (Int (-1)) = Removed 2 /\ insert_before Release 3 (Int 3) = Inserted 2 /\ filter_index Debug 3 (Int (-3)) = Item 0 /\
  ym_parse Debug (Some 2) (Some 3) true = YmOk (-27) /\
  Forall initial [list_state 2; range_state 3 1] /\
  visited_indexes (Model.run 6 [list_state 2; range_state 3 1] []) = Some [[0; 3]; [1; 3]; [0; 2]; [1; 2]; [0; 1]; [1; 1]].
Proof.
  split; [vm_compute; split; discriminate|].
  do 6 (split; [vm_compute; reflexivity|]).
  split; [|vm_compute; reflexivity].
  constructor; [|constructor; [|constructor]].
  - right. exists 2. split; [vm_compute; split; discriminate | reflexivity].
  - left. exists 3, 1. split; [reflexivity | split; reflexivity].
Qed.
Example C05_lr_nonvacuous : 100 < nstates /\ 100 < nrules /\ (50 < length all_token_values)%nat.
Proof. exact (conj (proj1 lr_nonvacuous) (conj (proj1 (proj2 lr_nonvacuous)) (proj1 (proj2 (proj2 lr_nonvacuous))))). Qed.

(* ---- the code of the pinned commit (f2b7a1b) violates the property: witnesses for the build with and without overflow checks *)
Theorem C05_sublist3_orig_refuted : (valid_len 3 /\ sublist3_orig Debug 3 (Int (-4)) (Int 1) = Panic) /\
  (valid_len 1 /\ sublist3_orig Debug 1 (Int 2) (Int usize_max) = Panic) /\ (valid_len 3 /\ sublist3_orig Release 3 (Int 2) (Int usize_max) = Panic).
Proof. exact (conj sublist3_orig_refuted_debug_underflow (conj sublist3_orig_refuted_debug_overflow sublist3_orig_refuted_release)). Qed.
Theorem C05_substring3_orig_refuted : (valid_len 3 /\ substring3_orig Debug 3 (Int 2) (Int usize_max) = Panic) /\
  (substring3_orig Release 3 (Int 2) (Int usize_max) = Slice 1 3 /\ substring3 Release 3 (Int 2) (Int usize_max) = Null).
Proof. exact (conj substring3_orig_refuted_debug substring3_orig_release_wrong). Qed.
Theorem C05_ym_parse_orig_refuted : ym_parse_orig Debug (Some 9999999999999999999) None false = YmPanic /\
  ym_parse_orig Debug (Some 768614336404564650) (Some 8) false = YmPanic /\ ym_parse_orig Debug None (Some 9223372036854775808) true = YmPanic /\
  (ym_parse_orig Debug None (Some 9223372036854775808) false = YmOk isize_min /\ ym_display_panics Debug isize_min = true) /\
  (exists t, ym_parse_orig Release (Some 9999999999999999999) None false = YmOk t /\ t <> 12 * 9999999999999999999).
Proof. exact (conj ym_parse_orig_refuted_debug_mul (conj ym_parse_orig_refuted_debug_add (conj ym_parse_orig_refuted_debug_neg (conj ym_parse_orig_refuted_display ym_parse_orig_release_wrong)))). Qed.
Theorem C05_odometer_orig_refuted : (initial (range_state isize_max isize_max) /\ run_orig Debug 5 [range_state isize_max isize_max] [] = RunPanic) /\
  (total [range_state isize_max isize_max] = 1 /\ run_orig Release 2000 [range_state isize_max isize_max] [] = OutOfFuel).
Proof. exact (conj odometer_orig_refuted_debug odometer_orig_refuted_release). Qed.
(* ---- listed finding dtd-sum-beyond-i128 (C05/DtdSum.v): the sum of two days-and-time durations is an unchecked i128 addition of nanoseconds.
   Outside the class (the exact sum fits i128) it is exact in both builds; inside it the build with overflow checks panics and the other returns a
   value that is not the sum; the panic happens exactly on the class.  Witness: the largest literal doubled 16 times fits, 17 times does not. *)
Theorem C05_dtd_sum_exact_unless_known : forall b x y, ~ C05.DtdSum.beyond_i128 x y -> C05.DtdSum.dtd_add b x y = MOk (x + y).
Proof. exact C05.DtdSum.dtd_add_exact. Qed.
Theorem C05_dtd_sum_known_class : forall x y, C05.DtdSum.beyond_i128 x y ->
  C05.DtdSum.dtd_add Debug x y = MTrap /\ exists z, C05.DtdSum.dtd_add Release x y = MOk z /\ z <> x + y.
Proof. exact C05.DtdSum.dtd_add_beyond. Qed.
Theorem C05_dtd_sum_traps_iff : forall x y, C05.DtdSum.dtd_add Debug x y = MTrap <-> C05.DtdSum.beyond_i128 x y.
Proof. exact C05.DtdSum.dtd_add_traps_iff. Qed.
Theorem C05_dtd_sum_total_refuted :
  C05.DtdSum.doubled 16 C05.DtdSum.max_literal_ns = MOk (2 ^ 16 * C05.DtdSum.max_literal_ns) /\ C05.DtdSum.doubled 17 C05.DtdSum.max_literal_ns = MTrap /\
  C05.DtdSum.doubled 16 (- C05.DtdSum.max_literal_ns) = MOk (- (2 ^ 16 * C05.DtdSum.max_literal_ns)) /\ C05.DtdSum.doubled 17 (- C05.DtdSum.max_literal_ns) = MTrap.
Proof. exact C05.DtdSum.doubling_witness. Qed.

Print Assumptions C05_sublist3_no_panic.
Print Assumptions C05_sublist2_no_panic.
Print Assumptions C05_substring3_no_panic.
Print Assumptions C05_substring2_no_panic.
Print Assumptions C05_insert_before_no_panic.
Print Assumptions C05_remove_no_panic.
Print Assumptions C05_filter_index_no_panic.
Print Assumptions C05_sublist3_build_independent.
Print Assumptions C05_sublist2_build_independent.
Print Assumptions C05_substring3_build_independent.
Print Assumptions C05_substring2_build_independent.
Print Assumptions C05_insert_before_build_independent.
Print Assumptions C05_remove_build_independent.
Print Assumptions C05_filter_index_build_independent.
Print Assumptions C05_sublist3_in_bounds.
Print Assumptions C05_sublist2_in_bounds.
Print Assumptions C05_substring3_in_bounds.
Print Assumptions C05_substring2_in_bounds.
Print Assumptions C05_insert_before_in_bounds.
Print Assumptions C05_remove_in_bounds.
Print Assumptions C05_filter_index_in_bounds.
Print Assumptions C05_ym_parse_no_panic.
Print Assumptions C05_ym_parse_build_independent.
Print Assumptions C05_ym_parse_value.
Print Assumptions C05_ym_parse_then_display.
Print Assumptions C05_sci_zero_count.
Print Assumptions C05_odometer_terminates_and_enumerates.
Print Assumptions C05_odometer_rank_injective.
Print Assumptions C05_lr_tables_in_bounds.
Print Assumptions C05_nonvacuous.
Print Assumptions C05_lr_nonvacuous.
Print Assumptions C05_sublist3_orig_refuted.
Print Assumptions C05_substring3_orig_refuted.
Print Assumptions C05_ym_parse_orig_refuted.
Print Assumptions C05_odometer_orig_refuted.
Print Assumptions C05_lr_driver_never_out_of_bounds.
Print Assumptions C05_lr_parse_never_out_of_bounds.
Print Assumptions C05_lr_driver_examples.
Print Assumptions C05_lr_loop_terminates.
Print Assumptions C05_lr_fuel_bound.
Print Assumptions C05_lr_loop_terminates_from.
Print Assumptions C05_parser_terminates.
Print Assumptions C05_parse_res_never_out_of_fuel.
Print Assumptions C05_parse_full_total.
Print Assumptions C05_parse_trace_never_out_of_fuel.
Print Assumptions C05_lr_cst_driver_terminates.
Print Assumptions C05_lr_driver_terminates.
Print Assumptions C05_lr_driver_terminates_example.
Print Assumptions C05_parser_terminates_nonvacuous.
Print Assumptions C05_next_token_progress.
Print Assumptions C05_lex_terminates.
Print Assumptions C05_lex_go_is_lex_run.
Print Assumptions C05_lex_none_is_error.
Print Assumptions C05_lex_go_fuel.
Print Assumptions C05_lex_trace_complete.
Print Assumptions C05_layout_scan_settles.
Print Assumptions C05_layout_scan_fuel.
Print Assumptions C05_name_collector_stops.
Print Assumptions C05_lex_progress_example.
Print Assumptions C05_dtd_sum_exact_unless_known.
Print Assumptions C05_dtd_sum_known_class.
Print Assumptions C05_dtd_sum_traps_iff.
Print Assumptions C05_dtd_sum_total_refuted.
