#!/bin/bash
# MANIFEST.setup_cmd: build the framework from files on disk only (offline).
cd "$(dirname "$0")"
export CARGO_NET_OFFLINE=true
mkdir -p build evidence replays
[ -f harness/Cargo.lock ] || cp /repo/Cargo.lock harness/Cargo.lock
( cd harness && RUSTFLAGS="--cfg dmntk_verif" cargo build --offline 2>&1 | tail -3 )
( cd harness && RUSTFLAGS="--cfg dmntk_verif" cargo build --offline --release 2>&1 | tail -3 )
python3 translators/run_all.py
python3 -c "
import sys; sys.path.insert(0, '.')
from vlib import core
print(core.refresh_coq_project())"
( cd coq && timeout 3000 make -k -j16 2>&1 | tail -5 )
echo "setup done"
exit 0
