//! `dv tokens`: the token stream of the real lexer (feel-parser `Lexer::next_token`, through the read-only hook
//! `dmntk_feel_parser::verif_tokens` behind `--cfg dmntk_verif`). One JSON request per line:
//!   {"keys": [name text, ...], "cps": [code point, ...], "flags": [bits, ...], "limit": n}
//! `keys` are bound in the scope verbatim (they do not pass through the lexer); `cps` is the input text as code points;
//! before token i the flags of `flags[i]` are set (1 unary tests, 2 between, 4 type name, 8 till in).
//! Answer: {"toks": [[kind, [texts as code point lists], position after the token, flags after the token], ...]} | {"panic": text}.
use crate::canon::panic_text;
use dmntk_feel::context::FeelContext;
use dmntk_feel::values::Value;
use dmntk_feel::{Name, Scope};
use serde_json::{json, Value as J};
use std::io::{BufRead, Write};

fn one(req: &J) -> J {
  let empty = vec![];
  let mut ctx = FeelContext::default();
  for k in req["keys"].as_array().unwrap_or(&empty) {
    ctx.set_entry(&Name::from(k.as_str().unwrap_or("")), Value::Null(None));
  }
  let scope: Scope = ctx.into();
  let text: String = req["cps"]
    .as_array()
    .unwrap_or(&empty)
    .iter()
    .map(|c| char::from_u32(c.as_u64().unwrap_or(32) as u32).unwrap_or(' '))
    .collect();
  let flags: Vec<u8> = req["flags"].as_array().unwrap_or(&empty).iter().map(|f| f.as_u64().unwrap_or(0) as u8).collect();
  let limit = req["limit"].as_u64().unwrap_or(10000) as usize;
  let toks = dmntk_feel_parser::verif_tokens(&scope, &text, &flags, limit);
  let out: Vec<J> = toks
    .into_iter()
    .map(|(kind, texts, pos, state)| {
      let ts: Vec<Vec<u32>> = texts.iter().map(|t| t.chars().map(|c| c as u32).collect()).collect();
      json!([kind, ts, pos, state])
    })
    .collect();
  json!({ "toks": out })
}

pub fn main() {
  let stdin = std::io::stdin();
  let stdout = std::io::stdout();
  let mut out = std::io::BufWriter::new(stdout.lock());
  for line in stdin.lock().lines() {
    let line = line.unwrap();
    if line.trim().is_empty() {
      continue;
    }
    let req: J = serde_json::from_str(&line).unwrap_or(J::Null);
    let r = std::panic::catch_unwind(|| one(&req)).unwrap_or_else(|e| json!({"panic": panic_text(e)}));
    writeln!(out, "{}", r).unwrap();
  }
  out.flush().unwrap();
}
