(* C06 — the layout stripper: white space and comments of the modelled comment grammar are skipped entirely, whatever their bodies.
   Owner: builder-parse. *)
From Coq Require Import List NArith Bool Arith Lia.
From DV Require Import C06.Model.
Import ListNotations.

Lemma skip_block_body : forall b rest, has_close b = false -> skip_block (b ++ 42%N :: 47%N :: rest) = rest.
Proof.
  induction b as [|c b IH]; intros rest H.
  - reflexivity.
  - cbn [app]. destruct b as [|d b'].
    + cbn [app skip_block]. replace ((c =? 42)%N && (42 =? 47)%N) with false by (rewrite andb_false_r; reflexivity).
      reflexivity.
    + cbn [has_close] in H. apply orb_false_iff in H. destruct H as [H1 H2].
      change (skip_block (c :: (d :: b') ++ 42%N :: 47%N :: rest)) with
        (if (c =? 42)%N && (d =? 47)%N then b' ++ 42%N :: 47%N :: rest else skip_block ((d :: b') ++ 42%N :: 47%N :: rest)).
      rewrite H1. apply IH. exact H2.
Qed.

Lemma skip_line_body : forall b rest, forallb (fun c => negb (c =? 10)%N) b = true -> skip_line (b ++ 10%N :: rest) = 10%N :: rest.
Proof.
  induction b as [|c b IH]; intros rest H.
  - reflexivity.
  - cbn [forallb] in H. apply andb_true_iff in H. destruct H as [H1 H2]. apply negb_true_iff in H1.
    cbn [app skip_line]. rewrite H1. apply IH. exact H2.
Qed.

Lemma skip_ws_token : forall rest, token_start rest = true -> skip_ws rest = rest.
Proof.
  intros [|c r] H; [reflexivity|]. cbn [token_start] in H. apply andb_true_iff in H. destruct H as [H _].
  apply negb_true_iff in H. cbn [skip_ws]. rewrite H. reflexivity.
Qed.

Lemma comment_start_token : forall rest, token_start rest = true -> comment_start rest = None.
Proof.
  intros [|c r] H; [reflexivity|]. cbn [token_start] in H. apply andb_true_iff in H. destruct H as [_ H].
  destruct (comment_start (c :: r)); [discriminate H|reflexivity].
Qed.

Lemma skip_layout_token : forall f rest, token_start rest = true -> skip_layout f rest = rest.
Proof.
  intros f rest H. destruct f; cbn [skip_layout]; rewrite (skip_ws_token _ H); [reflexivity|].
  rewrite (comment_start_token _ H). reflexivity.
Qed.

Definition comments (ps : list piece) : nat := length (filter (fun p => match p with PWs _ => false | _ => true end) ps).

(* every layout of the grammar is skipped entirely: the lexer resumes exactly at the next token *)
Theorem layout_skipped : forall ps f rest, forallb piece_ok ps = true -> token_start rest = true -> comments ps <= f ->
  skip_layout f (render_layout ps ++ rest) = rest.
Proof.
  induction ps as [|p ps IH]; intros f rest Hok Hr Hf.
  - cbn. apply skip_layout_token. exact Hr.
  - cbn [forallb] in Hok. apply andb_true_iff in Hok. destruct Hok as [Hp Hps].
    unfold render_layout in *. cbn [flat_map]. rewrite <- app_assoc. destruct p as [c|b|b]; cbn [piece_ok] in Hp.
    + (* a white space character: skipped by skip_ws, same fuel *)
      cbn [render_piece app]. specialize (IH f rest Hps Hr ltac:(unfold comments in *; cbn in Hf; exact Hf)).
      destruct f; cbn [skip_layout skip_ws]; rewrite Hp; cbn [skip_layout] in IH; exact IH.
    + unfold comments in Hf. cbn [filter length] in Hf. destruct f as [|f]; [lia|].
      cbn [render_piece app]. cbn [skip_layout skip_ws].
      replace (is_ws 47) with false by reflexivity. cbn [comment_start]. 
      change ((47 =? 47)%N && (42 =? 47)%N) with false. change ((47 =? 47)%N && (42 =? 42)%N) with true. cbv iota. cbn [tl].
      rewrite <- app_assoc. cbn [app]. apply negb_true_iff in Hp. rewrite skip_block_body by exact Hp.
      apply IH; [exact Hps|exact Hr|unfold comments; lia].
    + unfold comments in Hf. cbn [filter length] in Hf. destruct f as [|f]; [lia|].
      cbn [render_piece app]. cbn [skip_layout skip_ws].
      replace (is_ws 47) with false by reflexivity. cbn [comment_start].
      change ((47 =? 47)%N && (47 =? 47)%N) with true. cbv iota. cbn [tl].
      rewrite <- app_assoc. cbn [app]. rewrite skip_line_body by exact Hp.
      (* the line feed that ended the comment is white space *)
      specialize (IH f rest Hps Hr ltac:(unfold comments; lia)).
      destruct f; cbn [skip_layout skip_ws]; replace (is_ws 10) with true by reflexivity; cbn [skip_layout] in IH; exact IH.
Qed.

(* the original read_input skipped one comment only *)
Definition two_comments_then_1 : list N := [47; 42; 97; 42; 47; 32; 47; 42; 98; 42; 47; 32; 49]%N.   (* /*a*/ /*b*/ 1 *)

Lemma layout_orig_refuted_witness : skip_layout 2 two_comments_then_1 = [49%N] /\ skip_layout_orig two_comments_then_1 <> [49%N].
Proof. split; vm_compute; [reflexivity|discriminate]. Qed.
