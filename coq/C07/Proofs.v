(* C07 — proofs about coq/C07/Model.v. *)
From Coq Require Import String ZArith NArith Bool List Ascii Lia.
From DV Require Import Base.Dec C07.Model C07.Digits.
Import ListNotations.
Open Scope char_scope.
Open Scope Z_scope.

(* the function at the pinned commit: a negative number written with E- notation, and a zero with a positive exponent *)
Lemma print_orig_refuted :
  (exists d s, print_orig d = Some s /\ is_plain s = false) /\
  (exists d s, print_orig d = Some s /\ is_plain s = true /\ is_json s = false).
Proof.
  split.
  - exists (mkdec true 15 (-8)). eexists. split; [vm_compute; reflexivity | vm_compute; reflexivity].
  - exists (mkdec false 0 3). eexists. split; [vm_compute; reflexivity | split; vm_compute; reflexivity].
Qed.

Lemma print_nontrivial :
  print (mkdec true 15 (-8)) = Some (rd "-0.00000015"%string) /\
  print (mkdec false 1230 2) = Some (rd "123000"%string) /\
  print (mkdec true 12345 (-2)) = Some (rd "-123.45"%string) /\
  print (mkdec false 0 3) = Some (rd "0"%string).
Proof. vm_compute. repeat split. Qed.

(* ---------------------------------------------------------------- positional rendering, without the scientific detour *)
Definition render_unsigned (c : N) (e : Z) : str :=
  let ds := digits_of c in
  let pre := len ds + e in
  if 0 <? e then (if (c =? 0)%N then ["0"] else ds ++ zeros (Z.to_nat e))
  else if e =? 0 then ds
  else if 0 <? pre then firstn (Z.to_nat pre) ds ++ "." :: skipn (Z.to_nat pre) ds
  else "0" :: "." :: zeros (Z.to_nat (- pre)) ++ ds.

Lemma lacksE_digits : forall s, all_digits s = true -> lacksb "E" s = true.
Proof. apply all_digits_lacks. exact digit_not_E. Qed.
Lemma lacksdot_digits : forall s, all_digits s = true -> lacksb "." s = true.
Proof. apply all_digits_lacks. exact digit_not_dot. Qed.

Lemma orig_no_E : forall s, lacksb "E" s = true -> sci_to_plain_orig s = Some s.
Proof. intros s H. unfold sci_to_plain_orig. rewrite !(split_pat_none "E" _ s H). reflexivity. Qed.

Lemma unsigned_no_E : forall s, lacksb "E" s = true -> sci_to_plain_unsigned s = Some s.
Proof. intros s H. unfold sci_to_plain_unsigned. rewrite (split_pat_none "E" _ s H). apply orig_no_E. exact H. Qed.

Lemma lacksb_cons : forall c a s, lacksb c (a :: s) = negb (Ascii.eqb a c) && lacksb c s.
Proof. reflexivity. Qed.

Lemma len_cons : forall (a : ascii) s, len (a :: s) = 1 + len s.
Proof. intros. unfold len. cbn [length]. lia. Qed.

Theorem unsigned_render : forall c e, sci_to_plain_unsigned (to_sci_unsigned c e) = Some (render_unsigned c e).
Proof.
  intros c e.
  destruct (digits_of_ok c) as [D1 D2 D3 D4].
  destruct (digits_of_nonempty c) as (c1 & rest & Eds & Hc1 & Hrest).
  unfold to_sci_unsigned, render_unsigned. rewrite Eds in *. cbv zeta.
  assert (HlE : lacksb "E" (c1 :: rest) = true) by (apply lacksE_digits; exact D1).
  destruct ((0 <? e) || (len (c1 :: rest) + e <? -5)) eqn:Esci.
  - (* exponential form *)
    set (adj := len (c1 :: rest) + e - 1).
    set (mant := c1 :: match rest with [] => [] | _ :: _ => "." :: rest end).
    assert (HmE : lacksb "E" mant = true).
    { unfold mant. destruct rest as [|r rest']; [exact HlE|].
      cbn [lacksb forallb] in *. apply andb_true_iff in HlE. destruct HlE as [A B]. rewrite A. cbn. exact B. }
    pose proof (digits_of_ok (Z.abs_N adj)) as [X1 X2 _ _].
    assert (HxE : lacksb "E" (digits_of (Z.abs_N adj)) = true) by (apply lacksE_digits; exact X1).
    destruct (adj <? 0) eqn:Eadj.
    + (* E- *)
      apply Z.ltb_lt in Eadj.
      assert (He : (0 <? e) = false).
      { apply Z.ltb_ge. rewrite len_cons in *. unfold adj in Eadj. unfold len in *. lia. }
      unfold sci_to_plain_unsigned.
      rewrite (split_pat_wrong "E" "+" "-" mant (digits_of (Z.abs_N adj)) HmE); [| rewrite lacksb_cons, HxE; reflexivity | reflexivity].
      unfold sci_to_plain_orig.
      rewrite (split_pat_wrong "E" "+" "-" mant (digits_of (Z.abs_N adj)) HmE); [| rewrite lacksb_cons, HxE; reflexivity | reflexivity].
      rewrite (split_pat_found "E" "-" mant _ HmE).
      unfold next_piece. rewrite (split_pat_none "E" "-" _ HxE). rewrite parse_usize_digits.
      rewrite He.
      assert (Hez : (e =? 0) = false).
      { apply Z.eqb_neq. rewrite He in Esci. cbn [orb] in Esci. apply Z.ltb_lt in Esci. rewrite len_cons in Esci. unfold len in *. lia. }
      rewrite Hez.
      assert (Hpre : (0 <? len (c1 :: rest) + e) = false).
      { apply Z.ltb_ge. unfold adj in Eadj. lia. }
      rewrite Hpre.
      assert (Hz : N.to_nat (Z.abs_N adj - 1) = Z.to_nat (- (len (c1 :: rest) + e))).
      { unfold adj in *. lia. }
      rewrite Hz.
      unfold mant. destruct rest as [|r rest'].
      * rewrite (contains_none "." [c1]); [reflexivity|]. apply lacksdot_digits. exact D1.
      * change (c1 :: "." :: r :: rest') with ([c1] ++ "." :: r :: rest').
        rewrite contains_found. unfold split_two.
        rewrite (split_char_found "." [c1] (r :: rest')); [| apply lacksdot_digits; cbn; rewrite Hc1; reflexivity].
        rewrite (split_char_none "." (r :: rest')); [| apply lacksdot_digits; exact Hrest].
        cbn [fst app]. reflexivity.
    + (* E+ *)
      apply Z.ltb_ge in Eadj.
      assert (He : (0 <? e) = true).
      { destruct (0 <? e) eqn:E0; [reflexivity|]. cbn [orb] in Esci. apply Z.ltb_lt in Esci. unfold adj in Eadj. lia. }
      rewrite He. apply Z.ltb_lt in He.
      unfold sci_to_plain_unsigned.
      rewrite (split_pat_found "E" "+" mant _ HmE).
      unfold next_piece. rewrite (split_pat_none "E" "+" _ HxE). rewrite parse_usize_digits.
      unfold mant. destruct rest as [|r rest'].
      * rewrite (contains_none "." [c1]); [| apply lacksdot_digits; exact D1].
        destruct (c =? 0)%N eqn:Ec.
        -- apply N.eqb_eq in Ec. specialize (D3 Ec). injection D3 as ->. reflexivity.
        -- apply N.eqb_neq in Ec. destruct (D4 Ec) as (c' & t' & E' & Hne). injection E' as <- <-.
           assert (is_zero_digit [c1] = false) as Hzd.
           { unfold is_zero_digit. destruct (Ascii.eqb_spec c1 "0") as [->|NE]; [contradiction|].
             destruct c1 as [[] [] [] [] [] [] [] []]; try reflexivity. contradiction. }
           rewrite Hzd.
           assert (N.to_nat (Z.abs_N adj) = Z.to_nat e) as ->.
           { unfold adj. rewrite len_cons. unfold len. cbn [length]. lia. }
           reflexivity.
      * change (c1 :: "." :: r :: rest') with ([c1] ++ "." :: r :: rest').
        rewrite contains_found. unfold split_two.
        rewrite (split_char_found "." [c1] (r :: rest')); [| apply lacksdot_digits; cbn; rewrite Hc1; reflexivity].
        rewrite (split_char_none "." (r :: rest')); [| apply lacksdot_digits; exact Hrest].
        cbn [fst].
        assert (Hcs : checked_sub (Z.abs_N adj) (N.of_nat (length (r :: rest'))) = Some (Z.to_N e)).
        { unfold checked_sub, adj. rewrite len_cons. unfold len.
          destruct (Z.abs_N (1 + Z.of_nat (length (r :: rest')) + e - 1) <? N.of_nat (length (r :: rest')))%N eqn:Elt.
          - apply N.ltb_lt in Elt. lia.
          - f_equal. lia. }
        rewrite Hcs.
        assert (c =? 0 = false)%N as ->.
        { apply N.eqb_neq. intros Z0. specialize (D3 Z0). discriminate D3. }
        rewrite Z_N_nat. reflexivity.
  - (* plain notation *)
    apply orb_false_iff in Esci. destruct Esci as [He Hpre5]. rewrite He.
    destruct (0 <? len (c1 :: rest) + e) eqn:Epre.
    + destruct (e =? 0) eqn:Ee.
      * apply unsigned_no_E. exact HlE.
      * apply unsigned_no_E. rewrite lacksb_app, lacksb_cons.
        rewrite (lacksE_digits _ (all_digits_firstn _ _ D1)), (lacksE_digits _ (all_digits_skipn _ _ D1)). reflexivity.
    + assert (e =? 0 = false) as ->.
      { apply Z.eqb_neq. apply Z.ltb_ge in Epre. rewrite len_cons in Epre. unfold len in Epre. lia. }
      apply unsigned_no_E. rewrite !lacksb_cons, lacksb_app, HlE.
      rewrite (lacksE_digits _ (all_digits_zeros _)). reflexivity.
Qed.

Lemma to_sci_unsigned_head : forall c e, exists ch t, to_sci_unsigned c e = ch :: t /\ is_digit ch = true.
Proof.
  intros c e. destruct (digits_of_nonempty c) as (c1 & rest & Eds & Hc1 & Hrest).
  unfold to_sci_unsigned. rewrite Eds. cbv zeta.
  destruct ((0 <? e) || (len (c1 :: rest) + e <? -5)).
  - eexists _, _. split; [reflexivity | exact Hc1].
  - destruct (0 <? len (c1 :: rest) + e) eqn:Epre.
    + destruct (e =? 0); [eexists _, _; split; [reflexivity | exact Hc1]|].
      apply Z.ltb_lt in Epre. destruct (Z.to_nat (len (c1 :: rest) + e)) as [|k] eqn:Ek; [lia|].
      cbn [firstn app]. eexists _, _. split; [reflexivity | exact Hc1].
    + eexists _, _. split; reflexivity.
Qed.

Theorem print_render : forall d, print d = Some (sign_of d ++ render_unsigned (coef d) (expo d)).
Proof.
  intros d. unfold print, to_sci, sign_of. destruct (neg d).
  - cbn [app sci_to_plain]. rewrite unsigned_render. reflexivity.
  - cbn [app]. destruct (to_sci_unsigned_head (coef d) (expo d)) as (ch & t & E & Hd).
    pose proof (unsigned_render (coef d) (expo d)) as U. rewrite E in *.
    unfold sci_to_plain. assert (Ascii.eqb ch "-" = false) as Hm by (apply digit_not_minus; exact Hd).
    destruct ch as [[] [] [] [] [] [] [] []]; try discriminate Hm; exact U.
Qed.

(* ---------------------------------------------------------------- what the rendered text is and denotes *)
Definition unsigned_denotes (u : str) : N * Z :=
  match split_char "." u with
  | (ip, None) => (digits_val ip, 0)
  | (ip, Some fp) => (digits_val (ip ++ fp), - len fp)
  end.

Lemma nonempty_length : forall (s : str), s <> [] -> (length s =? 0)%nat = false.
Proof. intros [|a s] H; [contradiction | reflexivity]. Qed.

Lemma render_spec : forall c e,
  let u := render_unsigned c e in
  unsigned_plain u = true /\ no_leading_zero u = true /\
  (exists ch t, u = ch :: t /\ is_digit ch = true) /\
  let (m, k) := unsigned_denotes u in
  Z.of_N m * 10 ^ (k - Z.min k e) = Z.of_N c * 10 ^ (e - Z.min k e).
Proof.
  intros c e.
  destruct (digits_of_ok c) as [D1 D2 D3 D4].
  destruct (digits_of_nonempty c) as (c1 & rest & Eds & Hc1 & Hrest).
  assert (Hdot : lacksb "." (digits_of c) = true) by (apply lacksdot_digits; exact D1).
  unfold render_unsigned. cbv zeta.
  destruct (0 <? e) eqn:He.
  - apply Z.ltb_lt in He. destruct (c =? 0)%N eqn:Ec.
    + apply N.eqb_eq in Ec. subst c. cbv zeta. split; [reflexivity | split; [reflexivity | split]].
      * exists "0", []. split; reflexivity.
      * unfold unsigned_denotes. cbn [split_char Ascii.eqb Bool.eqb digits_val digits_acc].
        rewrite Z.min_l by lia. cbn. reflexivity.
    + apply N.eqb_neq in Ec. destruct (D4 Ec) as (c' & t' & E' & Hne).
      assert (Hall : all_digits (digits_of c ++ zeros (Z.to_nat e)) = true) by (rewrite all_digits_app, D1, all_digits_zeros; reflexivity).
      assert (Hsp : split_char "." (digits_of c ++ zeros (Z.to_nat e)) = (digits_of c ++ zeros (Z.to_nat e), None))
        by (apply split_char_none, lacksdot_digits; exact Hall).
      cbv zeta. split; [|split; [|split]].
      * unfold unsigned_plain. rewrite Hsp, Hall. rewrite Eds. reflexivity.
      * rewrite E'. cbn [app no_leading_zero].
        destruct c' as [[] [] [] [] [] [] [] []]; try reflexivity. contradiction.
      * rewrite Eds. cbn [app]. eexists _, _. split; [reflexivity | exact Hc1].
      * unfold unsigned_denotes. rewrite Hsp, digits_val_app_zeros, D2.
        rewrite Z.min_l by lia. rewrite Z.sub_0_r, Z.pow_0_r.
        rewrite N2Z.inj_mul, N2Z.inj_pow, nat_N_Z, Z2Nat.id by lia. change (Z.of_N 10) with 10.
        rewrite Z.sub_0_r. lia.
  - apply Z.ltb_ge in He. destruct (e =? 0) eqn:Ee.
    + apply Z.eqb_eq in Ee. subst e.
      assert (Hsp : split_char "." (digits_of c) = (digits_of c, None)) by (apply split_char_none; exact Hdot).
      cbv zeta. split; [|split; [|split]].
      * unfold unsigned_plain. rewrite Hsp, D1. rewrite Eds. reflexivity.
      * destruct (N.eq_dec c 0) as [Z0|NZ]; [rewrite (D3 Z0); reflexivity|].
        destruct (D4 NZ) as (c' & t' & E' & Hne). rewrite E'. cbn [no_leading_zero].
        destruct c' as [[] [] [] [] [] [] [] []]; try reflexivity. contradiction.
      * rewrite Eds. eexists _, _. split; [reflexivity | exact Hc1].
      * unfold unsigned_denotes. rewrite Hsp, D2. reflexivity.
    + apply Z.eqb_neq in Ee.
      destruct (0 <? len (digits_of c) + e) eqn:Epre.
      * apply Z.ltb_lt in Epre.
        set (k := Z.to_nat (len (digits_of c) + e)).
        assert (Hk : (0 < k < length (digits_of c))%nat) by (unfold k, len in *; lia).
        assert (Hfn : firstn k (digits_of c) <> []).
        { rewrite Eds. destruct k; [lia|]. cbn [firstn]. discriminate. }
        assert (Hsn : skipn k (digits_of c) <> []).
        { intros Z0. pose proof (skipn_length k (digits_of c)) as L. rewrite Z0 in L. cbn [length] in L. lia. }
        assert (Hsp : split_char "." (firstn k (digits_of c) ++ "." :: skipn k (digits_of c)) = (firstn k (digits_of c), Some (skipn k (digits_of c)))).
        { apply split_char_found, lacksdot_digits, all_digits_firstn; exact D1. }
        cbv zeta. split; [|split; [|split]].
        -- unfold unsigned_plain. rewrite Hsp. rewrite (nonempty_length _ Hfn), (nonempty_length _ Hsn).
           rewrite (all_digits_firstn _ _ D1), (all_digits_skipn _ _ D1). reflexivity.
        -- destruct (N.eq_dec c 0) as [Z0|NZ].
           { exfalso. rewrite (D3 Z0) in Hk. cbn [length] in Hk. lia. }
           destruct (D4 NZ) as (c' & t' & E' & Hne). rewrite E'. destruct k as [|k']; [lia|]. cbn [firstn app no_leading_zero].
           destruct c' as [[] [] [] [] [] [] [] []]; try reflexivity. contradiction.
        -- rewrite Eds. destruct k as [|k']; [lia|]. cbn [firstn app]. eexists _, _. split; [reflexivity | exact Hc1].
        -- unfold unsigned_denotes. rewrite Hsp, firstn_skipn, D2.
           assert (- len (skipn k (digits_of c)) = e) as ->.
           { unfold len. rewrite skipn_length. unfold k, len in *. lia. }
           reflexivity.
      * apply Z.ltb_ge in Epre.
        set (z := Z.to_nat (- (len (digits_of c) + e))).
        assert (Hsp : split_char "." ("0" :: "." :: zeros z ++ digits_of c) = (["0"], Some (zeros z ++ digits_of c))).
        { apply (split_char_found "." ["0"]). reflexivity. }
        assert (Hall : all_digits (zeros z ++ digits_of c) = true) by (rewrite all_digits_app, all_digits_zeros, D1; reflexivity).
        cbv zeta. split; [|split; [|split]].
        -- unfold unsigned_plain. rewrite Hsp, Hall. rewrite (nonempty_length (zeros z ++ digits_of c)); [reflexivity|].
           rewrite Eds. destruct (zeros z); discriminate.
        -- reflexivity.
        -- exists "0". eexists. split; reflexivity.
        -- unfold unsigned_denotes. rewrite Hsp. cbn [app]. rewrite digits_val_cons0, digits_val_zeros_app, D2.
           assert (- len (zeros z ++ digits_of c) = e) as ->.
           { unfold len. rewrite app_length, zeros_length. unfold z, len in *. lia. }
           reflexivity.
Qed.

Lemma strip_sign_signed : forall (b : bool) (u : str) (ch : ascii) (t : str), u = ch :: t -> is_digit ch = true ->
  strip_sign ((if b then ["-"] else ([] : str)) ++ u) = (b, u).
Proof.
  intros b u ch t -> Hd. destruct b; [reflexivity|]. cbn [app].
  assert (Ascii.eqb ch "-" = false) as Hm by (apply digit_not_minus; exact Hd).
  unfold strip_sign. destruct ch as [[] [] [] [] [] [] [] []]; try discriminate Hm; reflexivity.
Qed.

(* HEADLINE: for every sign, every coefficient and every exponent the number is printed (no trap),
   the text is plain decimal notation and a JSON number, and it denotes exactly the value *)
Theorem plain_exact : forall d, exists s p,
  print d = Some s /\ is_plain s = true /\ is_json s = true /\
  denotes s = Some p /\ neg p = neg d /\ veq p d.
Proof.
  intros d. rewrite print_render.
  pose proof (render_spec (coef d) (expo d)) as R. cbv zeta in R.
  set (u := render_unsigned (coef d) (expo d)) in *.
  destruct R as (R1 & R2 & (ch & t & Eu & Hch) & R4).
  assert (SS : strip_sign (sign_of d ++ u) = (neg d, u)) by (exact (strip_sign_signed (neg d) u ch t Eu Hch)).
  assert (Hplain : is_plain (sign_of d ++ u) = true) by (unfold is_plain; rewrite SS; exact R1).
  unfold unsigned_denotes in R4.
  destruct (split_char "." u) as [ip [fp|]] eqn:Esp.
  - exists (sign_of d ++ u), (mkdec (neg d) (digits_val (ip ++ fp)) (- len fp)).
    split; [reflexivity|]. split; [exact Hplain|]. split.
    { unfold is_json. rewrite Hplain, SS. exact R2. }
    split. { unfold denotes. rewrite Hplain, SS, Esp. reflexivity. }
    split; [reflexivity|].
    unfold veq, scaled, emin2, sval. cbn [neg coef expo]. destruct (neg d); lia.
  - exists (sign_of d ++ u), (mkdec (neg d) (digits_val ip) 0).
    split; [reflexivity|]. split; [exact Hplain|]. split.
    { unfold is_json. rewrite Hplain, SS. exact R2. }
    split. { unfold denotes. rewrite Hplain, SS, Esp. reflexivity. }
    split; [reflexivity|].
    unfold veq, scaled, emin2, sval. cbn [neg coef expo]. destruct (neg d); lia.
Qed.

(* the usize subtraction of the E+ branch never underflows, the exponent text always parses: print is total *)
Corollary print_total : forall d, print d <> None.
Proof. intros d. rewrite print_render. discriminate. Qed.

(* a numeric literal "ip.fp" (token Numeric(before, after), xsd:decimal text): the datum handed to the rounding
   step is exactly the number the text denotes *)
Definition numeric_literal (ip fp : str) : dec := mkdec false (digits_val (ip ++ fp)) (- len fp).

Theorem literal_exact : forall ip fp, all_digits ip = true -> all_digits fp = true -> ip <> [] -> fp <> [] ->
  denotes (ip ++ "." :: fp) = Some (numeric_literal ip fp).
Proof.
  intros ip fp Hi Hf Ni Nf.
  assert (Hsp : split_char "." (ip ++ "." :: fp) = (ip, Some fp)) by (apply split_char_found, lacksdot_digits; exact Hi).
  assert (Hss : strip_sign (ip ++ "." :: fp) = (false, ip ++ "." :: fp)).
  { destruct ip as [|a ip']; [contradiction|]. cbn in Hi. apply andb_true_iff in Hi. destruct Hi as [Ha _].
    assert (Ascii.eqb a "-" = false) as Hm by (apply digit_not_minus; exact Ha).
    cbn [app]. unfold strip_sign. destruct a as [[] [] [] [] [] [] [] []]; try discriminate Hm; reflexivity. }
  unfold denotes, is_plain. rewrite Hss. cbn [snd]. unfold unsigned_plain. rewrite Hsp.
  rewrite (nonempty_length _ Ni), (nonempty_length _ Nf), Hi, Hf. reflexivity.
Qed.

Theorem integer_literal_exact : forall ip, all_digits ip = true -> ip <> [] ->
  denotes ip = Some (mkdec false (digits_val ip) 0).
Proof.
  intros ip Hi Ni.
  assert (Hsp : split_char "." ip = (ip, None)) by (apply split_char_none, lacksdot_digits; exact Hi).
  assert (Hss : strip_sign ip = (false, ip)).
  { destruct ip as [|a ip']; [contradiction|]. cbn in Hi. apply andb_true_iff in Hi. destruct Hi as [Ha _].
    assert (Ascii.eqb a "-" = false) as Hm by (apply digit_not_minus; exact Ha).
    unfold strip_sign. destruct a as [[] [] [] [] [] [] [] []]; try discriminate Hm; reflexivity. }
  unfold denotes, is_plain. rewrite Hss. cbn [snd]. unfold unsigned_plain. rewrite Hsp.
  rewrite (nonempty_length _ Ni), Hi. reflexivity.
Qed.
