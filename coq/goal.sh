#!/bin/bash
# usage: goal.sh File.v LINE  -> prints goals after LINE lines of the file
f=$1; n=$2
head -n $n $f > /tmp/_goal.v; echo "Show." >> /tmp/_goal.v
coqtop -Q /verif/coq DV -batch -l /tmp/_goal.v 2>&1 | tail -${3:-40}
