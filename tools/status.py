#!/usr/bin/env python3
"""Prints a markdown status table: per property the obligations, cases of the last quick run, fixes, known findings, seeds."""
import glob, json, os, re
root = os.path.dirname(os.path.dirname(os.path.abspath(__file__)))
kf = open(os.path.join(root, 'known_findings.txt')).read().split('\n')
seeds = {}
for p in glob.glob(os.path.join(root, 'seeded', '*', 'meta.json')):
    m = json.load(open(p))
    seeds.setdefault(m['property'], []).append((m['id'], m['check_result'].split(':')[0]))
def breakdown(pid):
    """universally quantified theorems / witnesses (names with refuted, or statements that begin with exists or a negation) / examples of Props/<pid>.v"""
    try:
        text = open(os.path.join(root, 'coq', 'Props', pid + '.v')).read()
    except OSError:
        return ''
    th = wit = ex = 0
    for m in re.finditer(r'^(Theorem|Example|Lemma)\s+(\w+)\s*:?\s*([^\n]*)', text, flags=re.M):
        kind, name, head = m.groups()
        if kind == 'Example' or 'nonvacuous' in name:
            ex += 1
        elif 'refuted' in name or head.lstrip().startswith(('exists', '~')):
            wit += 1
        else:
            th += 1
    return '%d + %d + %d' % (th, wit, ex)


print('| id | obligations (all discharged) | theorems + witnesses + examples | quick-run cases / non-trivial | `fix:` commits in /repo | known findings | seeded changes (result) |')
print('|---|---|---|---|---|---|---|')
for i in range(1, 21):
    pid = 'C%02d' % i
    ev = os.path.join(root, 'evidence', pid + '.json')
    if not os.path.exists(ev):
        print('| %s | not built | | | | | |' % pid)
        continue
    e = json.load(open(ev))
    c = e['coverage']
    fixed = [re.match(r'fixed: property=%s (\S+)' % pid, l).group(1) for l in kf if re.match(r'fixed: property=%s ' % pid, l)]
    known = [re.match(r'known: property=%s key=(\S+)' % pid, l).group(1) for l in kf if re.match(r'known: property=%s ' % pid, l)]
    sd = ', '.join('%s (%s)' % s for s in sorted(seeds.get(pid, [])))
    print('| %s | %s/%s | %s | %s / %s | %s | %s | %s |' % (pid, c.get('discharged'), c.get('obligations'), breakdown(pid), c.get('evaluations'), c.get('distinct_nontrivial'),
                                                ' '.join(fixed) or '—', ', '.join(known) or '—', sd or '—'))
