"""C06, text level for the binders — the lexer model with the binder flag policy (coq/C06/LexBind.v: `lex_b`, the pushdown `tstate` that decides
which comma sets till_in and which colon sets type_name), the reading of its tokens with the same pushdown (coq/C06/ExtLexAll.v `eabs_b`) and the
extended Spec parser, against the REAL parser.  Owner: prover-C06-binders.  Called from props/c06.py (`bind_section(ctx, c06_module)`).

What is compared, for the texts the Coq printer writes (`unlex (econc_all ..)`, one space after every token, and `unlex_lay` with generated layouts)
for trees WITH for / some / every / function (random ones and a directed part: binders nested in headers, in brackets inside headers, every one of
the nine range bracket combinations and empty lists / contexts / argument lists inside headers, typed and untyped parameters), in the minimal rendering,
the full rendering and the minimal rendering with each pair of parentheses removed:
  1. the token stream the real lexer delivers WHEN DRIVEN BY THE REAL PARSER (from the parser's own trace, `dv ptrace`: the `lexer:` lines) = the token
     stream of the model `trace_b` (token kinds and values), as far as the real parser reads;
  2. the flag-setting actions the real parser runs between two token reads (between_begin, type_name, iteration_context_variable_name_begin,
     quantified_expression_variable_name_begin: the same trace) = the flags the model's policy sets before that token (`policy_bits`): the flag policy
     assumed by `lex_b` is the one the parser applies;
  3. the tree: `parse_text_all` (model) = `dv ast` (real parser); for the two renderings the real parser must give the generated tree (else VIOLATION).
A fourth part prints trees whose binding variables and formal parameters are NOT in the scope (and are not referred to): there the lexer finds the end of the
variable only through till_in (else it takes the longest name, `v in a return b`), so a parser that does not set the flag where the policy says is seen in
the token stream and rejects the text (VIOLATION with the text); with variables in the scope the flag does not change the tokens and part 2 sees action names only.
The side conditions of C06_text_roundtrip_*_all (eflag_ok, names_all) and etrack_ok are evaluated per case; where they hold the model must return the tree
(it is a theorem: a failure means a stale build).  Directed cases with the iteration / quantified variable `item` (the former known finding
item-iteration-variable, repaired in /repo: consume_name returned `item` with till_in left set) are ordinary cases: stream, flags and tree are
compared like all others and the real parser must give the generated tree."""
import concurrent.futures
import json
import os
import re
import subprocess

from vlib import core
from vlib.coqterm import App
from props import c06lex

HEADER = ('From Coq Require Import List NArith Bool.\n'
          'From DV Require Import C06.Model C06.ModelExt C06.Lexer C06.LexerProofs C06.LexerText C06.LexBind C06.ExtLex C06.ExtLexAll.\n'
          'Import ListNotations.\nOpen Scope N_scope.\n'
          'Definition dec_k (keys : list str) (l : ltoken) : option N :=\n'
          '  match l with\n'
          '  | LName n => match pos_of n keys 0 with Some i => Some (2 * i + 1) | None => None end\n'
          '  | _ => match dec_unary l with Some k => Some (2 * k) | None => None end\n'
          '  end.\n'
          'Definition enc_k (keys : list str) (a : N) : ltoken := if N.odd a then LName (nth_str keys (a / 2)) else enc_unary (a / 2).\n'
          'Definition one_case (k : list str) (ts : list etok) :=\n'
          '  let text := unlex (econc_all k (enc_k k) ts) in\n'
          '  (eflag_ok false ts && forallb (names_all k) ts && etrack_ok tstate0 ts, text, trace_b k text, parse_text_all k (dec_k k) text).\n'
          'Definition bind_case (k : list str) (t : etree) :=\n'
          '  (one_case k (erender_min t), one_case k (erender_full t),\n'
          '   map (fun i => one_case k (edrop_paren i (erender_min t))) (seq 0 (ecount_lp (erender_min t)))).\n'
          'Definition scope_case (k k2 : list str) (t : etree) := let text := unlex (econc_all k (enc_k k) (erender_min t)) in (eflag_ok false (erender_min t), text, trace_b k2 text).\n'
          'Definition lay_case (k : list str) (t : etree) (lead : list piece) (gaps : list (list piece)) :=\n'
          '  let ts := erender_min t in let ls := econc_all k (enc_k k) ts in\n'
          '  let text := render_layout lead ++ unlex_lay gaps ls in\n'
          '  (eflag_ok false ts && forallb (names_all k) ts && gaps_ok_b tstate0 flags0 ls gaps && forallb gap_ok gaps && forallb piece_ok lead,\n'
          '   text, trace_b k text, parse_text_all k (dec_k k) text).\n')

TYPE_WORDS = ['number', 'string', 'boolean', 'Any', 'Null', 'time']
BINOPS = ['Or', 'And', 'Eq', 'Nq', 'Lt', 'Le', 'Gt', 'Ge', 'InOp', 'Sub', 'Add', 'Mul', 'Div', 'Exp']
AST_OP = {'InOp': 'In'}
ROPEN = ['RoP', 'RoB', 'RoR']
RCLOSE = ['RcP', 'RcB', 'RcL']
FLAG_ACTIONS = {'unary_tests_begin': 1, 'between_begin': 2, 'type_name': 4, 'iteration_context_variable_name_begin': 8,
                'quantified_expression_variable_name_begin': 8}


# ------------------------------------------------------------------------------------------------ trees (Coq syntax)

def gen_atom(rng, nk):
    return 'EAtom %d' % (2 * rng.randrange(nk) + 1 if rng.random() < 0.7 else 2 * rng.randrange(3))


def gen_etree(rng, d, nk, nres=0):
    """A random tree of the extended Spec, binders and function definitions frequent; no path of a path (known finding bracket-three-segment-path).
    nres > 0: the variables of the bindings and the formal parameters are the nres names behind the first nk, and nothing else refers to them."""
    if d <= 0 or rng.random() < 0.12:
        return gen_atom(rng, nk)
    sub = lambda: '(' + gen_etree(rng, d - 1, nk, nres) + ')'
    v = lambda: rng.randrange(nk)
    bv = (lambda: nk + rng.randrange(nres)) if nres else v
    r = rng.random()
    if r < 0.15:
        return 'EBin %s %s %s' % (rng.choice(BINOPS), sub(), sub())
    if r < 0.18:
        return 'ENeg %s' % sub()
    if r < 0.23:
        return 'EBtw %s %s %s' % (sub(), sub(), sub())
    if r < 0.26:
        return 'EInst %s %d' % (sub(), rng.randrange(6))
    if r < 0.30:
        h = sub()
        return 'EPath %s %d' % (h if not h.startswith('(EPath') else '(' + gen_atom(rng, nk) + ')', v())
    if r < 0.35:
        return 'EFilt %s %s' % (sub(), sub())
    if r < 0.41:
        return 'ECall %s [%s]' % (sub(), '; '.join(gen_etree(rng, d - 1, nk, nres) for _ in range(rng.choice([0, 1, 2, 3]))))
    if r < 0.45:
        kvs = ['(%d, %s)' % (v(), gen_etree(rng, d - 1, nk, nres)) for _ in range(rng.choice([1, 2, 3]))]
        return 'ECallN %s %s [%s]' % (sub(), kvs[0], '; '.join(kvs[1:]))
    if r < 0.51:
        return 'EIf %s %s %s' % (sub(), sub(), sub())
    if r < 0.66:
        ds = ['(%d, %s, %s)' % (bv(), gen_etree(rng, d - 1, nk, nres), ('Some %s' % sub()) if rng.random() < 0.35 else 'None') for _ in range(rng.choice([1, 1, 2, 3]))]
        return 'EFor %s [%s] %s' % (ds[0], '; '.join(ds[1:]), sub())
    if r < 0.77:
        ds = ['(%d, %s)' % (bv(), gen_etree(rng, d - 1, nk, nres)) for _ in range(rng.choice([1, 1, 2, 3]))]
        return 'EQuant %s %s [%s] %s' % (rng.choice(['QSome', 'QEvery']), ds[0], '; '.join(ds[1:]), sub())
    if r < 0.87:
        ps = ['(%d, %s)' % (bv(), ('Some %d' % rng.randrange(6)) if rng.random() < 0.5 else 'None') for _ in range(rng.choice([0, 1, 2, 3]))]
        return 'EFun [%s] %s' % ('; '.join(ps), sub())
    if r < 0.92:
        return 'EList [%s]' % '; '.join(gen_etree(rng, d - 1, nk, nres) for _ in range(rng.choice([0, 1, 2, 3])))
    if r < 0.96:
        return 'ECtx [%s]' % '; '.join('(%d, %s)' % (v(), gen_etree(rng, d - 1, nk, nres)) for _ in range(rng.choice([0, 1, 2])))
    return 'ERange %s %d %d %s' % (rng.choice(ROPEN), 2 * rng.randrange(nk) + 1 if rng.random() < 0.5 else 2 * rng.randrange(3),
                                   2 * rng.randrange(nk) + 1 if rng.random() < 0.5 else 2 * rng.randrange(3), rng.choice(RCLOSE))


def has_binder(t):
    return any(w in t for w in ('EFor', 'EQuant', 'EFun'))


def directed():
    """Header commas against commas in brackets, every range form and the empty collections inside a header, binders in headers of binders."""
    a, b, c, x = 'EAtom 1', 'EAtom 3', 'EAtom 5', 'EAtom 7'
    one, two = 'EAtom 0', 'EAtom 2'
    out = []
    for ro in ROPEN:
        for rc in RCLOSE:
            R = '(ERange %s 1 2 %s)' % (ro, rc)
            out += ['EFor (0, %s, None) [(1, %s, None)] (EBin Add (%s) (%s))' % (R, R, a, b),
                    'EQuant QSome (0, EList [%s; %s]) [(1, %s)] (%s)' % (R, a, R, a),
                    'EFor (0, EList [%s], Some (ECall (%s) [%s; %s])) [(1, %s, None)] %s' % (R, a, R, b, b, R),
                    'EList [EFor (0, %s, None) [] (%s); %s]' % (R, R, R)]
    out += ['EFor (0, EList [], None) [(1, ECtx [], None); (2, ECall (%s) [], None)] (EList [])' % a,
            'EFor (0, EList [%s; %s], None) [(1, ECall (%s) [%s; %s], None)] (ECall (%s) [%s; %s])' % (a, b, a, b, c, a, b, c),
            'EFor (0, ECtx [(1, %s); (2, %s)], None) [(1, ECallN (%s) (0, %s) [(1, %s)], None)] (%s)' % (a, b, a, b, c, a),
            'EFor (0, EFor (1, %s, None) [(2, %s, None)] (%s), None) [(3, %s, None)] (%s)' % (a, b, c, a, b),
            'EFor (0, EQuant QEvery (1, %s) [(2, %s)] (%s), None) [(3, EFun [(0, Some 0); (1, None)] (%s), None)] (%s)' % (a, b, c, a, b),
            'EFor (0, EIf (%s) (%s) (%s), None) [(1, %s, Some (%s))] (%s)' % (a, b, c, one, two, a),
            'EFor (0, %s, Some (%s)) [(1, %s, Some (EIf (%s) (%s) (%s)))] (%s)' % (one, two, a, a, b, c, a),
            'EQuant QSome (0, EList [EQuant QEvery (1, %s) [(2, %s)] (%s); %s]) [(1, %s)] (%s)' % (a, b, c, a, b, c),
            'EFun [(0, Some 0); (1, None); (2, Some 5)] (EFun [] (EFun [(3, None)] (%s)))' % a,
            'EFun [(0, None)] (EFor (1, %s, None) [(2, %s, None)] (ECtx [(0, EFun [(1, Some 1)] (%s)); (1, %s)]))' % (a, b, c, a),
            'ECall (%s) [EFor (0, %s, None) [(1, %s, None)] (%s); %s]' % (a, b, c, a, b),
            'ECallN (%s) (0, EFor (0, %s, None) [(1, %s, None)] (%s)) [(1, EFun [(0, Some 2)] (%s))]' % (a, b, c, a, b),
            'ECtx [(0, EFor (0, %s, None) [(1, %s, None)] (%s)); (1, EQuant QSome (0, %s) [] (%s))]' % (b, c, a, a, b),
            'EBin Mul (EFun [(0, Some 0); (1, None)] (EIf (%s) (EFor (2, %s, None) [(3, %s, Some (%s))] (EBin Add (%s) (%s))) (%s))) (%s)' % (a, b, two, a, c, x, b, a),
            'EBin InOp (EFor (0, %s, None) [] (EBin InOp (%s) (%s))) (%s)' % (a, b, c, a),
            'EFor (0, EBin InOp (%s) (%s), None) [(1, EBin InOp (%s) (EList [%s; %s]), None)] (EBin InOp (%s) (%s))' % (a, b, a, b, c, a, b),
            'EBtw (%s) (EFor (0, %s, None) [(1, %s, None)] (%s)) (EQuant QSome (0, %s) [(1, %s)] (%s))' % (a, b, c, a, a, b, c),
            'EFilt (EFor (0, %s, None) [(1, %s, None)] (%s)) (EFun [(0, None); (1, None)] (%s))' % (a, b, c, a),
            'EInst (EFor (0, %s, None) [(1, %s, None)] (%s)) 0' % (a, b, c)]
    return out


# ------------------------------------------------------------------------------------------------ the Coq tree as the JSON tree of dv ast

def atom_ast(a, keys, endpoint=False):
    if a % 2:
        return ['QualifiedName', ['QualifiedNameSegment', keys[a // 2]]] if endpoint else ['Name', keys[a // 2]]
    return ['Numeric', '1' * (a // 2 + 1), '']


def tree_ast(c, keys):
    n, a = c.name, c.args
    f = lambda x: tree_ast(x, keys)
    if n == 'EAtom':
        return atom_ast(a[0], keys)
    if n == 'EBin':
        return [AST_OP.get(a[0].name, a[0].name), f(a[1]), f(a[2])]
    if n == 'ENeg':
        return ['Neg', f(a[0])]
    if n == 'EBtw':
        return ['Between'] + [f(x) for x in a]
    if n == 'EInst':
        return ['InstanceOf', f(a[0]), ['FeelType', TYPE_WORDS[a[1]]]]
    if n == 'EPath':
        return ['Path', f(a[0]), ['Name', keys[a[1]]]]
    if n == 'EFilt':
        return ['Filter', f(a[0]), f(a[1])]
    if n == 'ECall':
        return ['FunctionInvocation', f(a[0]), ['PositionalParameters'] + [f(x) for x in a[1]]]
    if n == 'ECallN':
        return ['FunctionInvocation', f(a[0]), ['NamedParameters'] + [['NamedParameter', ['ParameterName', keys[k]], f(e)] for k, e in [a[1]] + list(a[2])]]
    if n == 'EIf':
        return ['If', f(a[0]), f(a[1]), f(a[2])]
    if n == 'EFor':
        ics = []
        for v, e, hi in [a[0]] + list(a[1]):
            if isinstance(hi, App) and hi.name == 'Some':
                ics.append(['IterationContextRange', ['Name', keys[v]], f(e), f(hi.args[0])])
            else:
                ics.append(['IterationContextSingle', ['Name', keys[v]], f(e)])
        return ['For', ['IterationContexts'] + ics, ['EvaluatedExpression', f(a[2])]]
    if n == 'EQuant':
        qs = [['QuantifiedContext', ['Name', keys[v]], f(e)] for v, e in [a[1]] + list(a[2])]
        return ['Some' if a[0].name == 'QSome' else 'Every', ['QuantifiedContexts'] + qs, ['Satisfies', f(a[3])]]
    if n == 'EFun':
        ps = []
        for p, ty in a[0]:
            tya = ['FeelType', TYPE_WORDS[ty.args[0]]] if (isinstance(ty, App) and ty.name == 'Some') else ['FeelType', 'Any']
            ps.append(['FormalParameter', ['ParameterName', keys[p]], tya])
        return ['FunctionDefinition', ['FormalParameters'] + ps, ['FunctionBody', f(a[1]), False]]
    if n == 'EList':
        return ['List'] + [f(x) for x in a[0]]
    if n == 'ECtx':
        return ['Context'] + [['ContextEntry', ['ContextEntryKey', keys[k]], f(v)] for k, v in a[0]]
    if n == 'ERange':
        return ['Range', ['IntervalStart', atom_ast(a[1], keys, True), a[0].name == 'RoB'], ['IntervalEnd', atom_ast(a[2], keys, True), a[3].name == 'RcB']]
    raise ValueError(n)


def opt_ast(c, keys):
    return tree_ast(c.args[0], keys) if (isinstance(c, App) and c.name == 'Some') else None


# ------------------------------------------------------------------------------------------------ the real parser's trace

_VAL = re.compile(r'^(\w+)(?:\((.*)\))?$')
_STRS = re.compile(r'"((?:[^"\\]|\\.)*)"')


def rust_unescape(s):
    out, i = [], 0
    while i < len(s):
        ch = s[i]
        if ch == '\\' and i + 1 < len(s):
            e = s[i + 1]
            if e == 'u':
                j = s.index('}', i)
                out.append(chr(int(s[i + 3:j], 16)))
                i = j + 1
                continue
            out.append({'n': '\n', 't': '\t', 'r': '\r', '0': '\0'}.get(e, e))
            i += 2
            continue
        out.append(ch)
        i += 1
    return ''.join(out)


def value_item(dbg):
    """Debug text of a TokenValue -> (kind, [texts as code point lists]) in the shape of c06lex.model_token."""
    m = _VAL.match(dbg.strip())
    if not m:
        return ('?' + dbg, [])
    kind, inner = m.group(1), m.group(2)
    if inner is None:
        return (kind, [])
    if kind == 'Boolean':
        return (kind, [c06lex.cps(inner)])
    return (kind, [c06lex.cps(rust_unescape(x)) for x in _STRS.findall(inner)])


def parse_block(body):
    """(tokens read by the parser, flags set by the parser before each of them)"""
    toks, bits, pending = [], [], 0
    for line in body.split('\n'):
        line = line.strip()
        if line.startswith('lexer: yy_value='):
            v = line[len('lexer: yy_value='):]
            if v == 'StartExpression':
                continue
            toks.append(value_item(v))
            bits.append(pending)
            pending = 0
        elif line.startswith('action: ['):
            nm = re.sub(r'\x1b\[[0-9;]*m', '', line[len('action: ['):]).rstrip(']')
            pending |= FLAG_ACTIONS.get(nm, 0)
    return toks, bits


def run_ptrace(ctx_text, texts):
    exe = os.path.join(core.TARGET, 'debug', 'dv')
    n = len(texts)
    k = max(1, min(12, n // 40 + 1))
    chunks = [texts[i * n // k:(i + 1) * n // k] for i in range(k)]

    def work(part):
        if not part:
            return []
        p = subprocess.run([exe, 'ptrace'], input='\n'.join(json.dumps({'ctx': ctx_text, 'e': t}) for t in part) + '\n',
                           stdout=subprocess.PIPE, stderr=subprocess.PIPE, text=True, errors='replace', timeout=900)
        res = []
        for block in p.stdout.split('@@BEGIN')[1:]:
            body, _, tail = block.partition('@@END')
            try:
                j = json.loads(tail.strip().split('\n')[0])
            except Exception:
                j = {}
            res.append((parse_block(body), j.get('ok')))
        while len(res) < len(part):
            res.append((([('crash', [])], [0]), None))
        return res

    with concurrent.futures.ThreadPoolExecutor(max_workers=k) as ex:
        parts = list(ex.map(work, chunks))
    return [r for part in parts for r in part]


def model_stream(items):
    toks, bits, end = [], [], None
    for it in items:
        if it.name == 'ITok':
            t, _, fl = it.args
            kind, texts = c06lex.model_token(t)
            toks.append((kind, [list(x) for x in texts]))
            bits.append(fl)
        else:
            end = it.name
    return toks, bits, end


# ------------------------------------------------------------------------------------------------ layouts (Coq syntax)

WS_PURE = [32, 9, 10, 13, 11, 12, 133, 160, 8192, 8195, 8201, 8203, 8232, 8233, 8239, 8287, 12288]
WS_NAME = [6158, 65279]          # white space characters that are name characters as well


def gen_piece(rng, tight):
    r = rng.random()
    if tight or r < 0.5:
        return 'PWs %d' % rng.choice(WS_PURE)
    if r < 0.55:
        return 'PWs %d' % rng.choice(WS_NAME)
    body = rng.choice(['', ' c ', 'in', ' in ', '*', '**', 'a in b', '(', ' ( ', '/', 'x/*y', 'функция'])
    if r < 0.8:
        return 'PBlock %s' % c06lex.coq_list(c06lex.cps(body))
    return 'PLine %s' % c06lex.coq_list(c06lex.cps(body.replace('\n', ' ')))


def gen_layout(rng, ngaps, ptight):
    gaps = []
    for _ in range(ngaps):
        tight = rng.random() < ptight
        gaps.append('[' + '; '.join('(' + gen_piece(rng, tight) + ')' for _ in range(rng.choice([0, 0, 1, 1, 2, 3]))) + ']')
    lead = '[' + '; '.join('(' + gen_piece(rng, False) + ')' for _ in range(rng.choice([0, 0, 1, 2]))) + ']'
    return lead, '[' + '; '.join(gaps) + ']'


# ------------------------------------------------------------------------------------------------ the section

def bind_section(ctx, m):
    rng = ctx.rng
    keys = list(m.NAMES)
    ck = c06lex.coq_keys(keys)
    nk = len(keys)
    trees = list(directed())
    want = ctx.pick(260, 4000)
    tries = 0
    while len(trees) < len(directed()) + want and tries < 50 * want:
        tries += 1
        t = gen_etree(rng, rng.choice([2, 3, 3, 4]), nk)
        if has_binder(t) and len(t) < 1500:
            trees.append(t)
    nlay = ctx.pick(160, 2500)
    terms = ['bind_case %s (%s)' % (ck, t) for t in trees]
    lay_terms = []
    for _ in range(nlay):
        t = rng.choice(trees)
        lead, gaps = gen_layout(rng, 60, rng.choice([0.3, 0.7, 1.0]))
        lay_terms.append('lay_case %s (%s) %s %s' % (ck, t, lead, gaps))
    # the variables of the bindings and the formal parameters outside the scope (and not referred to): without till_in the lexer would take the
    # longest name (`v in a return b`), so a parser that does not set the flag where the policy says is seen in the token stream
    nres = 3
    small = keys[:nk - nres]
    scope_trees = []
    tries = 0
    while len(scope_trees) < ctx.pick(120, 1500) and tries < 20000:
        tries += 1
        t = gen_etree(rng, rng.choice([2, 3, 3, 4]), nk - nres, nres)
        if has_binder(t) and len(t) < 1500:
            scope_trees.append(t)
    scope_terms = ['scope_case %s %s (%s)' % (ck, c06lex.coq_keys(small), t) for t in scope_trees]
    model = ctx.run_model(HEADER, terms + lay_terms + scope_terms, shard_size=25, tag='bind')
    scope_model = model[len(terms) + len(lay_terms):]
    model = model[:len(terms) + len(lay_terms)]
    cases = []
    for t, res in zip(trees, model[:len(trees)]):
        rmin, rfull, drops = res[0:4], res[4], res[5]        # Coq prints the left-nested tuple flat
        for rend, one in [('min', rmin), ('full', rfull)] + [('drop', d) for d in drops]:
            ok, text, items, mt = one
            cases.append({'tree': t, 'rend': rend, 'side': bool(ok), 'text': ''.join(chr(c) for c in text), 'items': items, 'mt': mt})
    for res in model[len(trees):]:
        ok, text, items, mt = res
        cases.append({'tree': None, 'rend': 'layout', 'side': bool(ok), 'text': ''.join(chr(c) for c in text), 'items': items, 'mt': mt})
    # `item` as the variable of a binding, and an `in` further on (formerly the known finding item-iteration-variable: till_in stayed set behind `item`)
    keys_item = keys + ['item']
    item_terms = ['bind_case %s (%s)' % (c06lex.coq_keys(keys_item), t) for t in
                  ['EFor (%d, EAtom 1, None) [] (EBin InOp (EAtom 3) (EAtom 5))' % nk,
                   'EQuant QSome (%d, EAtom 1) [] (EBin InOp (EAtom 3) (EAtom 5))' % nk,
                   'EQuant QEvery (%d, EAtom 1) [] (EBin InOp (EAtom 3) (EAtom 5))' % nk,
                   'EFor (%d, EAtom 1, None) [(0, EAtom 3, None)] (EAtom 5)' % nk,
                   'EFor (0, EAtom 1, None) [(%d, EAtom 3, None)] (EBin InOp (EAtom 3) (EAtom 5))' % nk,
                   'EQuant QSome (0, EAtom 1) [(%d, EAtom 3)] (EBin InOp (EAtom %d) (EAtom 5))' % (nk, 2 * nk + 1),
                   'EList [EFor (%d, EAtom 1, None) [] (EAtom 3); EBin InOp (EAtom 3) (EAtom 5)]' % nk]]
    item_model = ctx.run_model(HEADER, item_terms, shard_size=25, tag='binditem')
    item_cases = []
    for res in item_model:
        ok, text, items, mt = res[0:4]
        item_cases.append({'rend': 'min', 'side': bool(ok), 'text': ''.join(chr(c) for c in text), 'items': items, 'mt': mt})

    ctx_text = '{' + ','.join('%s:1' % k for k in keys) + '}'
    traces = run_ptrace(ctx_text, [c['text'] for c in cases])
    scope_texts = [''.join(chr(c) for c in text) for _, text, _ in scope_model]
    scope_traces = run_ptrace('{' + ','.join('%s:1' % k for k in small) + '}', scope_texts)
    asts = ctx.run_impl('ast', [{'bind': [[k, None] for k in keys], 'e': c['text'], 'mode': 'expr'} for c in cases])
    hist, stats = {}, {'stream': 0, 'flags': 0, 'tree': 0, 'flag_settings_compared': 0, 'tillin_after_comma': 0, 'type_after_colon': 0, 'side_holds': 0, 'unbound': 0, 'layout_in': 0}
    fails = []
    for c, ((rtoks, rbits), rok), got in zip(cases, traces, asts):
        ctx.evaluations += 1
        ctx.corr_checked += 1
        ctx.nontrivial.add('bind:' + c['text'])
        hist[c['rend']] = hist.get(c['rend'], 0) + 1
        if c['rend'] == 'layout' and not c['side']:
            # outside the layout grammar of the theorem (gaps_ok_b): a comment directly behind a NEW name (the variable of a binding, a formal
            # parameter) or between `function` and `(` is swallowed into the name by the real lexer -- the listed finding
            # comment-behind-new-name, whose witnesses run below; the model does not follow the lexer there, nothing is compared
            stats['layout_outside'] = stats.get('layout_outside', 0) + 1
            continue
        mtoks, mbits, mend = model_stream(c['items'])
        exp = opt_ast(c['mt'], keys)
        ast = got.get('ast')
        if rtoks and rtoks[-1][0] == 'YyEof':
            rtoks, rbits = rtoks[:-1], rbits[:-1]
        n = len(rtoks)
        # 1. the stream the parser read is a prefix of the model's stream (all of it when the parser accepts)
        if [list(x) for x in rtoks] != [list(x) for x in mtoks[:n]] or (rok and n != len(mtoks)):
            stats['stream'] += 1
            fails.append((c, 'token stream: the parser read %s, the model lexes %s' % (show(rtoks), show(mtoks))))
            continue
        # 2. the flags the parser set before every token it read
        stats['flag_settings_compared'] += n
        for i in range(1, n):
            if rbits[i] & 8 and rtoks[i - 1][0] == 'Comma':
                stats['tillin_after_comma'] += 1
            if rbits[i] & 4 and rtoks[i - 1][0] == 'Colon':
                stats['type_after_colon'] += 1
        if list(rbits) != list(mbits[:n]):
            stats['flags'] += 1
            i = next(j for j in range(n) if rbits[j] != mbits[j])
            fails.append((c, 'flag policy: before token %d (%s) the parser sets flags %d, the model %d' % (i, rtoks[i][0], rbits[i], mbits[i])))
            continue
        # 3. the tree
        if c['side']:
            stats['side_holds'] += 1
            stats['side_' + c['rend']] = stats.get('side_' + c['rend'], 0) + 1
            if c['rend'] == 'layout':
                stats['layout_in'] += 1
        if c['rend'] == 'layout' and not c['side']:
            continue                                         # outside the layout grammar of the theorem: streams and flags only
        if any(k == 'Name' and ''.join(chr(x) for x in ts[0]) not in keys for k, ts in mtoks):
            stats['unbound'] += 1                            # a pair removed: `function` no longer in front of `(` begins a name that is not bound (outside the quantifier)
            continue
        if 'panic' in got or 'crash' in got or ast != exp:
            stats['tree'] += 1
            fails.append((c, 'tree: the parser gives %s, the text-level model %s' % (json.dumps(ast if ast is not None else got.get('err', got))[:300], json.dumps(exp)[:300] if exp else 'no tree')))
    # witnesses of the listed finding comment-behind-new-name: the property says comments between tokens do not change the tree
    wit = [('for a /*x*/ in xs return a', ['For', ['IterationContexts', ['IterationContextSingle', ['Name', 'a'], ['Name', 'xs']]], ['EvaluatedExpression', ['Name', 'a']]]),
           ('some a /*x*/in xs satisfies a', ['Some', ['QuantifiedContexts', ['QuantifiedContext', ['Name', 'a'], ['Name', 'xs']]], ['Satisfies', ['Name', 'a']]]),
           ('every a // x\n in xs satisfies a', ['Every', ['QuantifiedContexts', ['QuantifiedContext', ['Name', 'a'], ['Name', 'xs']]], ['Satisfies', ['Name', 'a']]]),
           ('function(a /*c*/) a', ['FunctionDefinition', ['FormalParameters', ['FormalParameter', ['ParameterName', 'a'], ['FeelType', 'Any']]], ['FunctionBody', ['Name', 'a'], False]]),
           ('function /*c*/ (a) a', ['FunctionDefinition', ['FormalParameters', ['FormalParameter', ['ParameterName', 'a'], ['FeelType', 'Any']]], ['FunctionBody', ['Name', 'a'], False]]),
           # controls: the same comments in front of the name and behind `in` / `)` do not change the tree
           ('for /*x*/ a in /*y*/ xs return a', ['For', ['IterationContexts', ['IterationContextSingle', ['Name', 'a'], ['Name', 'xs']]], ['EvaluatedExpression', ['Name', 'a']]]),
           ('function(/*c*/ a) /*d*/ a', ['FunctionDefinition', ['FormalParameters', ['FormalParameter', ['ParameterName', 'a'], ['FeelType', 'Any']]], ['FunctionBody', ['Name', 'a'], False]])]
    wres = ctx.run_impl('ast', [{'bind': [[['xs'], {'list': [1]}]], 'e': t, 'mode': 'expr', 'eval': False} for t, _ in wit])
    for k, ((t, want), g) in enumerate(zip(wit, wres)):
        ctx.evaluations += 1
        got_ast = g.get('ast')
        if got_ast == want:
            continue
        # the symptom of the finding: a syntax error, or a tree whose new name holds the comment text; never a panic
        swallowed = 'panic' not in g and 'crash' not in g and (got_ast is None or '/' in json.dumps(got_ast))
        if k < 5 and swallowed and ctx.known('comment-behind-new-name', {'text': t}):
            continue
        ctx.violation('input `%s`: a comment between tokens changes the tree: the parser gives %s, without the comment %s' % (t, json.dumps(got_ast if got_ast is not None else g.get('err'))[:200], json.dumps(want)[:200]),
                      {'text': t, 'expected': want}, impl=g)
    scope_bad = 0
    for t, text, (fok, _, items), ((rtoks, rbits), rok) in zip(scope_trees, scope_texts, scope_model, scope_traces):
        ctx.evaluations += 1
        ctx.corr_checked += 1
        ctx.nontrivial.add('bindscope:' + text)
        mtoks, mbits, mend = model_stream(items)
        if rtoks and rtoks[-1][0] == 'YyEof':
            rtoks, rbits = rtoks[:-1], rbits[:-1]
        c = {'tree': t, 'rend': 'scope', 'side': False, 'text': text, 'mt': None}
        if not fok:                                          # known finding between-lower-bound-and: the parser may reject; what it read is compared
            n = len(rtoks)
            if [list(x) for x in rtoks] != [list(x) for x in mtoks[:n]] or list(rbits) != list(mbits[:n]):
                scope_bad += 1
                fails.append((c, 'token stream / flags (variables outside the scope): the parser read %s with flags %s, the model lexes %s with flags %s' % (show(rtoks), rbits, show(mtoks), mbits)))
        elif not rok or [list(x) for x in rtoks] != [list(x) for x in mtoks]:
            scope_bad += 1
            fails.append((c, 'token stream (variables outside the scope %s): the parser %s and read %s, the model lexes %s' % (small, 'accepts' if rok else 'REJECTS', show(rtoks), show(mtoks))))
        elif list(rbits) != list(mbits):
            scope_bad += 1
            fails.append((c, 'flag policy (variables outside the scope): the parser sets %s, the model %s' % (rbits, mbits)))
    # the renderings of a tree: the model gives the tree back wherever the side conditions hold (theorem), so the comparison above is against the tree
    for c, why in sorted(fails, key=lambda f: len(f[0]['text']))[:6]:
        if c['rend'] == 'scope' and 'REJECTS' in why:
            ctx.violation('input `%s` (minimal rendering printed by Coq of the tree %s; the variables of its bindings and its formal parameters are not in the scope): the parser rejects it; %s' % (c['text'], c['tree'], why),
                          {'text': c['text'], 'mode': 'expr', 'rend': 'min', 'kind': 'bind', 'expected': 'a tree', 'names_in_scope': small})
        elif c['rend'] in ('min', 'full') and c['side'] and why.startswith('tree'):
            ctx.violation('input `%s` (the %s rendering printed by Coq of the tree %s): %s' % (c['text'], c['rend'], c['tree'], why),
                          {'text': c['text'], 'mode': 'expr', 'rend': c['rend'], 'kind': 'bind', 'expected': opt_ast(c['mt'], keys), 'names_in_scope': keys})
        else:
            ctx.corr_broken('binder text level (%s) on `%s`' % (c['rend'], c['text']), {'text': c['text']}, why, 'n/a')
    # the variable `item`: ordinary cases (the side conditions hold, the model gives the tree back, the real parser must read the same stream,
    # set the same flags and give the same tree)
    item_asts = ctx.run_impl('ast', [{'bind': [[k, None] for k in keys_item], 'e': c['text'], 'mode': 'expr'} for c in item_cases])
    item_traces = run_ptrace('{' + ','.join('%s:1' % k for k in keys_item) + '}', [c['text'] for c in item_cases])
    item_ok = 0
    for c, got, ((rtoks, rbits), rok) in zip(item_cases, item_asts, item_traces):
        ctx.evaluations += 1
        ctx.corr_checked += 1
        ctx.nontrivial.add('binditem:' + c['text'])
        exp = opt_ast(c['mt'], keys_item)
        mtoks, mbits, mend = model_stream(c['items'])
        if rtoks and rtoks[-1][0] == 'YyEof':
            rtoks, rbits = rtoks[:-1], rbits[:-1]
        if not c['side'] or exp is None:
            ctx.broken.append('variable item: the side conditions of C06_text_roundtrip_min_all hold = %s, tree of the text-level model = %s on `%s` (stale build?)' % (c['side'], exp, c['text']))
            continue
        if 'panic' in got or 'crash' in got or got.get('ast') != exp:
            ctx.violation('input `%s` (the variable of the binding is `item`): the parser gives %s, the tree is %s; the stream it read: %s'
                          % (c['text'], json.dumps(got.get('ast', got.get('err', got)))[:300], json.dumps(exp)[:300], show(rtoks)),
                          {'text': c['text'], 'mode': 'expr', 'rend': 'min', 'kind': 'bind', 'expected': exp, 'names_in_scope': keys_item}, impl=got)
            continue
        if [list(x) for x in rtoks] != [list(x) for x in mtoks] or list(rbits) != list(mbits):
            ctx.corr_broken('binder text level (variable item) on `%s`' % c['text'], {'text': c['text']}, [show(rtoks), list(rbits)], [show(mtoks), list(mbits)])
            continue
        item_ok += 1
    return {'bind_trees': len(trees), 'bind_texts': hist, 'bind_side_conditions_hold': {k[5:]: v for k, v in stats.items() if k.startswith('side_') and k != 'side_holds'}, 'bind_layouts_inside_the_theorem': stats['layout_in'], 'bind_parser_driven_flag_settings_compared': stats['flag_settings_compared'],
            'bind_tillin_after_comma_seen': stats['tillin_after_comma'], 'bind_type_after_colon_seen': stats['type_after_colon'],
            'bind_stream_disagreements': stats['stream'], 'bind_flag_policy_disagreements': stats['flags'], 'bind_tree_disagreements': stats['tree'],
            'bind_variables_outside_scope_texts': len(scope_trees), 'bind_variables_outside_scope_disagreements': scope_bad, 'bind_skipped_unbound_name': stats['unbound'], 'bind_item_variable_cases': len(item_cases), 'bind_item_variable_agree': item_ok}


def show(toks):
    def tx(x):
        return ''.join(chr(c) for c in x)
    return ' '.join(k + ('(' + ','.join(tx(t) for t in ts) + ')' if ts else '') for k, ts in toks)[:400]
