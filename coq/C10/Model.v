(* C10 — names with spaces and symbols resolve to their bound value (longest match).
   Owner: builder-parse.

   ImplModel of feel-parser/src/lexer.rs consume_name (lines 550-705): the five-state machine that collects name
   parts and the position of the last character of every part, the longest-prefix loop against the flattened scope
   keys, flatten_name_parts (lines 1040-1055) and Name::new (feel/src/names.rs lines 100-114) with the `str::trim` it applies
   to every part (char::is_whitespace = the Unicode property White_Space, which is NOT the white space of the lexer: U+180E,
   U+200B and U+FEFF are white space for the lexer only).  C06/Lexer.v takes name_new, collect and mem from here.
   is_name_start is is_name_start_char after the repair "a white space character is never a name character" (U+1680, U+180E, U+FEFF,
   inside the name character ranges of the grammar, are white space only); the character classes, the collector and the token
   stream of the code before that repair are kept as is_name_start_orig, is_name_part_orig, collect_orig, lex_name_chars_orig,
   lex_all_chars_orig at the end of the file (witnesses C10_*_orig_refuted).
   Characters are Unicode scalar values (N); positions are indices into the input (nat).  No proofs here. *)
From Coq Require Import List NArith Bool Arith.
Import ListNotations.

Definition str := list N.

(* ------------------------------------------------------------------ character classes (lexer.rs 1046-1083) *)

Definition between (lo hi c : N) : bool := (lo <=? c)%N && (c <=? hi)%N.

Definition is_add_sym (c : N) : bool :=   (* . / - ' + * *)
  (c =? 46)%N || (c =? 47)%N || (c =? 45)%N || (c =? 39)%N || (c =? 43)%N || (c =? 42)%N.

Definition is_digit (c : N) : bool := between 48 57 c.

Definition is_vspace (c : N) : bool := between 10 13 c.

Definition is_ws (c : N) : bool :=
  is_vspace c || (c =? 9)%N || (c =? 32)%N || (c =? 133)%N || (c =? 160)%N || (c =? 5760)%N || (c =? 6158)%N ||
  between 8192 8203 c || (c =? 8232)%N || (c =? 8233)%N || (c =? 8239)%N || (c =? 8287)%N || (c =? 12288)%N || (c =? 65279)%N.

(* the ranges of grammar rule 28, as is_name_start_char was before the repair: U+1680, U+180E (inside 037F-1FFF) and U+FEFF (inside
   FDF0-FFFD) are in them and are white space for is_whitespace as well *)
Definition is_name_start_orig (c : N) : bool :=
  (c =? 63)%N || between 65 90 c || (c =? 95)%N || between 97 122 c ||
  between 192 214 c || between 216 246 c || between 248 767 c || between 880 893 c || between 895 8191 c ||
  between 8204 8205 c || between 8304 8591 c || between 11264 12271 c || between 12289 55295 c ||
  between 63744 64975 c || between 65008 65533 c || between 65536 983039 c.

Definition is_name_part_orig (c : N) : bool :=
  is_name_start_orig c || is_digit c || (c =? 183)%N || between 768 879 c || between 8255 8256 c.

(* is_name_start_char now (`!is_whitespace(ch) && matches!(..)`): a white space character is never a name character *)
Definition is_name_start (c : N) : bool := is_name_start_orig c && negb (is_ws c).

Definition is_name_part (c : N) : bool :=
  is_name_start c || is_digit c || (c =? 183)%N || between 768 879 c || between 8255 8256 c.

(* ------------------------------------------------------------------ the part collector *)

Definition next_is (p : N -> bool) (inp : str) (pos : nat) : bool :=
  match nth_error inp (S pos) with Some c => p c | None => false end.

Definition ch (inp : str) (pos : nat) : N := nth pos inp 0%N.

(* parts and positions are accumulated in reverse; cur is the part being read (reversed) *)
Record acc := { a_parts : list str; a_cps : list nat; a_cur : str }.

Inductive mstate := S1 | S2 | S3 | S4 | S5.

(* one turn of the `loop { match state ... }`; None = break *)
Definition step (inp : str) (s : mstate) (pos : nat) (a : acc) : option (mstate * nat * acc) :=
  match s with
  | S1 | S3 =>
    if next_is is_name_part inp pos
    then Some (s, S pos, {| a_parts := a_parts a; a_cps := a_cps a; a_cur := ch inp (S pos) :: a_cur a |})
    else Some (S2, pos, {| a_parts := rev (a_cur a) :: a_parts a; a_cps := pos :: a_cps a; a_cur := [] |})
  | S2 =>
    if next_is is_name_part inp pos then Some (S3, pos, a)
    else if next_is is_add_sym inp pos then Some (S4, pos, a)
    else if next_is is_ws inp pos then Some (S5, pos, a)
    else None
  | S4 =>
    if next_is is_add_sym inp pos
    then Some (S4, S pos, {| a_parts := [ch inp (S pos)] :: a_parts a; a_cps := S pos :: a_cps a; a_cur := [] |})
    else Some (S2, pos, a)
  | S5 =>
    if next_is is_ws inp pos then Some (S5, S pos, a) else Some (S2, pos, a)
  end.

Fixpoint machine (fuel : nat) (inp : str) (s : mstate) (pos : nat) (a : acc) : mstate * nat * acc :=
  match fuel with
  | O => (s, pos, a)
  | S f => match step inp s pos a with
           | Some (s', pos', a') => machine f inp s' pos' a'
           | None => (s, pos, a)
           end
  end.

(* parts (in order), positions of the last character of each part, position after the break (`self.position += 1`) *)
Definition collect (inp : str) (pos : nat) : list str * list nat * nat :=
  let '(_, p, a) := machine (4 * S (length inp)) inp S1 pos {| a_parts := []; a_cps := []; a_cur := [ch inp pos] |} in
  (rev (a_parts a), rev (a_cps a), S p).

(* ------------------------------------------------------------------ the two normalisers *)

Fixpoint str_eqb (a b : str) : bool :=
  match a, b with
  | [], [] => true
  | x :: a', y :: b' => (x =? y)%N && str_eqb a' b'
  | _, _ => false
  end.

Definition is_sym_part (p : str) : bool := match p with [c] => is_add_sym c | _ => false end.

(* char::is_whitespace of Rust (Unicode White_Space): what str::trim removes.  A subset of is_ws; of the name characters only
   U+1680 is in it *)
Definition is_white_space (c : N) : bool :=
  between 9 13 c || (c =? 32)%N || (c =? 133)%N || (c =? 160)%N || (c =? 5760)%N || between 8192 8202 c ||
  (c =? 8232)%N || (c =? 8233)%N || (c =? 8239)%N || (c =? 8287)%N || (c =? 12288)%N.

Fixpoint trim_start (p : str) : str :=
  match p with
  | c :: r => if is_white_space c then trim_start r else p
  | [] => []
  end.

(* str::trim *)
Definition trim (p : str) : str := rev (trim_start (rev (trim_start p))).

(* the loop of Name::new over the trimmed parts: a space between two parts unless one of them is an additional symbol; an empty
   part adds nothing and counts as a word for the part after it (`prev = current`) *)
Fixpoint name_new_go (first prev : bool) (ps : list str) : str :=
  match ps with
  | [] => []
  | p :: r =>
    let cur := is_sym_part p in
    let sp := if negb first && negb prev && negb cur && negb (match p with [] => true | _ => false end) then [32%N] else [] in
    sp ++ p ++ name_new_go false cur r
  end.

Definition name_join (ps : list str) : str := name_new_go true false ps.

(* Name::new (= From<Vec<String>>, From<Vec<&str>>): `parts.iter().map(|s| s.trim())`, then the loop.  Display, Jsonify and
   From<Name> for String give this text back unchanged *)
Definition name_new (ps : list str) : str := name_join (map trim ps).

(* From<String> / From<&str> for Name: the whole text trimmed, nothing else (this is what the harness does with a name given as one string) *)
Definition name_of_text (s : str) : str := trim s.

(* str::replace(" c ", "c"): non-overlapping, left to right *)
Fixpoint replace_sym (fuel : nat) (c : N) (s : str) : str :=
  match fuel with
  | O => s
  | S f =>
    match s with
    | 32%N :: x :: 32%N :: r => if (x =? c)%N then c :: replace_sym f c r else 32%N :: replace_sym f c (x :: 32%N :: r)
    | x :: r => x :: replace_sym f c r
    | [] => []
    end
  end.

Fixpoint join_sp (ps : list str) : str :=
  match ps with
  | [] => []
  | [p] => p
  | p :: r => p ++ 32%N :: join_sp r
  end.

(* flatten_name_parts as it was before the repair: every part trimmed, joined with one space, the result trimmed, then the six replacements *)
Definition flatten_parts_orig (ps : list str) : str :=
  let s := trim (join_sp (map trim ps)) in
  let n := S (length s) in
  replace_sym n 42 (replace_sym n 43 (replace_sym n 39 (replace_sym n 45 (replace_sym n 47 (replace_sym n 46 s))))).

(* flatten_name_parts now: the normal form of the stored names *)
Definition flatten_parts (ps : list str) : str := name_new ps.

(* ------------------------------------------------------------------ the longest-prefix loop and the token *)

Definition mem (k : str) (keys : list str) : bool := existsb (str_eqb k) keys.

(* `while part_count > 0`: the largest part_count whose flattened prefix is a key *)
Fixpoint search (keys : list str) (parts : list str) (pc : nat) : option nat :=
  match pc with
  | O => None
  | S k => if mem (flatten_parts (firstn pc parts)) keys then Some pc else search keys parts k
  end.

Definition str_item : str := [105; 116; 101; 109]%N.
Definition str_in : str := [105; 110]%N.

Fixpoint index_of (p : str) (ps : list str) (i : nat) : option nat :=
  match ps with
  | [] => None
  | x :: r => if str_eqb x p then Some i else index_of p r (S i)
  end.

Inductive lexres :=
| LName (name : str) (newpos : nat)
| LCrash.                              (* consumed_positions[index - 1] with index = 0 *)

(* consume_name at position pos (which holds a name start character); till_in = the flag set by for / some / every.
   guard = true: the repaired code (`in` as the first part is not a variable boundary: the branch is skipped);
   guard = false: the original, which indexed consumed_positions[index - 1] with index = 0 *)
Definition lex_name_gen (guard : bool) (keys : list str) (till_in : bool) (inp : str) (pos : nat) : lexres :=
  let '(parts, cps, endpos) := collect inp pos in
  let regular :=
    match search keys parts (length parts) with
    | Some pc => LName (name_new (firstn pc parts)) (S (nth (pc - 1) cps 0))
    | None => LName (name_new parts) endpos
    end in
  if match parts with p :: _ => str_eqb p str_item | [] => false end then LName str_item (S (nth 0 cps 0))
  else
    match (if till_in then index_of str_in parts 0 else None) with
    | Some O => if guard then regular else LCrash
    | Some (S i) => LName (name_new (firstn (S i) parts)) (S (nth i cps 0))
    | None => regular
    end.

Definition lex_name : list str -> bool -> str -> nat -> lexres := lex_name_gen true.
Definition lex_name_orig : list str -> bool -> str -> nat -> lexres := lex_name_gen false.

(* ------------------------------------------------------------------ a small token stream around it (names, numerals, one-character symbols) *)

Inductive tok := KName (n : str) | KNum (d : str) | KSym (c : N).

Fixpoint digits (fuel : nat) (inp : str) (pos : nat) (acc : str) : str * nat :=
  match fuel with
  | O => (rev acc, pos)
  | S f => match nth_error inp pos with
           | Some c => if is_digit c then digits f inp (S pos) (c :: acc) else (rev acc, pos)
           | None => (rev acc, pos)
           end
  end.

Fixpoint tokens (fuel : nat) (keys : list str) (inp : str) (pos : nat) : option (list tok) :=
  match fuel with
  | O => Some []
  | S f =>
    match nth_error inp pos with
    | None => Some []
    | Some c =>
      if is_ws c then tokens f keys inp (S pos)
      else if is_digit c then
        let '(d, p) := digits (length inp) inp pos [] in
        match tokens f keys inp p with Some r => Some (KNum d :: r) | None => None end
      else if is_name_start c then
        match lex_name keys false inp pos with
        | LName n p => match tokens f keys inp p with Some r => Some (KName n :: r) | None => None end
        | LCrash => None
        end
      else match tokens f keys inp (S pos) with Some r => Some (KSym c :: r) | None => None end
    end
  end.

Definition lex_all (keys : list str) (inp : str) : option (list tok) := tokens (S (length inp)) keys inp 0.

(* ------------------------------------------------------------------ the collector and the token with the character classes of the code before
   the repair of is_name_start_char (U+1680, U+180E, U+FEFF are name characters): the same machine over is_name_part_orig *)

Definition step_orig (inp : str) (s : mstate) (pos : nat) (a : acc) : option (mstate * nat * acc) :=
  match s with
  | S1 | S3 =>
    if next_is is_name_part_orig inp pos
    then Some (s, S pos, {| a_parts := a_parts a; a_cps := a_cps a; a_cur := ch inp (S pos) :: a_cur a |})
    else Some (S2, pos, {| a_parts := rev (a_cur a) :: a_parts a; a_cps := pos :: a_cps a; a_cur := [] |})
  | S2 =>
    if next_is is_name_part_orig inp pos then Some (S3, pos, a)
    else if next_is is_add_sym inp pos then Some (S4, pos, a)
    else if next_is is_ws inp pos then Some (S5, pos, a)
    else None
  | S4 =>
    if next_is is_add_sym inp pos
    then Some (S4, S pos, {| a_parts := [ch inp (S pos)] :: a_parts a; a_cps := S pos :: a_cps a; a_cur := [] |})
    else Some (S2, pos, a)
  | S5 =>
    if next_is is_ws inp pos then Some (S5, S pos, a) else Some (S2, pos, a)
  end.

Fixpoint machine_orig (fuel : nat) (inp : str) (s : mstate) (pos : nat) (a : acc) : mstate * nat * acc :=
  match fuel with
  | O => (s, pos, a)
  | S f => match step_orig inp s pos a with
           | Some (s', pos', a') => machine_orig f inp s' pos' a'
           | None => (s, pos, a)
           end
  end.

Definition collect_orig (inp : str) (pos : nat) : list str * list nat * nat :=
  let '(_, p, a) := machine_orig (4 * S (length inp)) inp S1 pos {| a_parts := []; a_cps := []; a_cur := [ch inp pos] |} in
  (rev (a_parts a), rev (a_cps a), S p).

(* consume_name (guarded `in` branch) over the original character classes *)
Definition lex_name_chars_orig (keys : list str) (till_in : bool) (inp : str) (pos : nat) : lexres :=
  let '(parts, cps, endpos) := collect_orig inp pos in
  let regular :=
    match search keys parts (length parts) with
    | Some pc => LName (name_new (firstn pc parts)) (S (nth (pc - 1) cps 0))
    | None => LName (name_new parts) endpos
    end in
  if match parts with p :: _ => str_eqb p str_item | [] => false end then LName str_item (S (nth 0 cps 0))
  else
    match (if till_in then index_of str_in parts 0 else None) with
    | Some (S i) => LName (name_new (firstn (S i) parts)) (S (nth i cps 0))
    | _ => regular
    end.

Fixpoint tokens_chars_orig (fuel : nat) (keys : list str) (inp : str) (pos : nat) : option (list tok) :=
  match fuel with
  | O => Some []
  | S f =>
    match nth_error inp pos with
    | None => Some []
    | Some c =>
      if is_ws c then tokens_chars_orig f keys inp (S pos)
      else if is_digit c then
        let '(d, p) := digits (length inp) inp pos [] in
        match tokens_chars_orig f keys inp p with Some r => Some (KNum d :: r) | None => None end
      else if is_name_start_orig c then
        match lex_name_chars_orig keys false inp pos with
        | LName n p => match tokens_chars_orig f keys inp p with Some r => Some (KName n :: r) | None => None end
        | LCrash => None
        end
      else match tokens_chars_orig f keys inp (S pos) with Some r => Some (KSym c :: r) | None => None end
    end
  end.

Definition lex_all_chars_orig (keys : list str) (inp : str) : option (list tok) := tokens_chars_orig (S (length inp)) keys inp 0.
