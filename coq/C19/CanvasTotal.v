(* C19 — totality of the characters -> plane model: `canvas_cplane text` is never Panic, for EVERY text.
   (owner: prover-C19; model coq/C19/Canvas.v)
   Panic is the model's value for an index out of bounds, an ill-formed slice or a usize underflow in canvas.rs.  The proof is the
   in-bounds invariant of the rectangular filled grid: the four layers are h x w rectangles (h, w > 0) or the degenerate one-line
   canvas of a text without a picture; every point a search returns is inside the rectangle; every rectangle a walk closes has its
   text area inside the rectangle; the passes that rewrite layers keep their shape. *)
From Coq Require Import List NArith Bool Arith Lia.
From DV Require Import C19.Model C19.Canvas.
Import ListNotations.

Definition safe {A} (P : A -> Prop) (r : res A) : Prop := match r with Ok a => P a | Err => True | Panic => False end.

Lemma safe_bind {A B} (P : A -> Prop) (Q : B -> Prop) (r : res A) (f : A -> res B) :
  safe P r -> (forall a, P a -> safe Q (f a)) -> safe Q (bind r f).
Proof. destruct r; cbn; auto. Qed.
Lemma safe_mono {A} (P Q : A -> Prop) (r : res A) : safe P r -> (forall a, P a -> Q a) -> safe Q r.
Proof. destruct r; cbn; auto. Qed.
Lemma safe_not_panic {A} (P : A -> Prop) (r : res A) : safe P r -> r <> Panic.
Proof. destruct r; cbn; intros; congruence || tauto. Qed.

Lemma in_firstn {A} (x : A) n : forall l, In x (firstn n l) -> In x l.
Proof. induction n as [|n IH]; intros [|a l] Hin; cbn in *; try tauto. destruct Hin; [now left|right; now apply IH]. Qed.
Lemma in_skipn {A} (x : A) n : forall l, In x (skipn n l) -> In x l.
Proof. induction n as [|n IH]; intros [|a l] Hin; cbn in *; try tauto. right. now apply IH. Qed.

Lemma mapi_from_length {A B} (f : nat -> A -> B) l : forall i, length (mapi_from f i l) = length l.
Proof. induction l as [|a l IH]; intro i; [reflexivity|]. cbn [mapi_from length]. now rewrite IH. Qed.
Lemma mapi_from_in {A B} (f : nat -> A -> B) l b : forall i, In b (mapi_from f i l) -> exists k a, In a l /\ b = f k a.
Proof.
  induction l as [|a l IH]; intros i Hin; [destruct Hin|]. cbn [mapi_from] in Hin. destruct Hin as [<-|Hin].
  - exists i, a. split; [now left|reflexivity].
  - destruct (IH _ Hin) as (k & a' & Ha & ->). exists k, a'. split; [now right|reflexivity].
Qed.

(* ================================================================== a rectangular layer *)
Definition rectl (h w : nat) (g : layer) : Prop := length g = h /\ forall row, In row g -> length row = w.
Definition inb (h w : nat) (p : point) : Prop := fst p < w /\ snd p < h.
(* a rectangle whose text area (what text_from_rect slices) is inside the layer *)
Definition good_rect (h w : nat) (r : rect) : Prop :=
  let '(l, t, rr, b) := r in l + 2 <= rr /\ rr <= w /\ t + 2 <= b /\ b <= h.

Lemma rectl_mapi h w g (F : nat -> list N -> list N) : rectl h w g -> (forall y row, length (F y row) = length row) -> rectl h w (mapi F g).
Proof.
  intros [Hh Hw] HF. split; [unfold mapi; now rewrite mapi_from_length|].
  intros row Hin. unfold mapi in Hin. apply mapi_from_in in Hin. destruct Hin as (k & a & Ha & ->). rewrite HF. now apply Hw.
Qed.
Lemma rectl_remap h w g f : rectl h w g -> rectl h w (remap g f).
Proof. intro Hg. unfold remap. apply rectl_mapi; [assumption|]. intros y row. unfold mapi. apply mapi_from_length. Qed.
Lemma rectl_map h w g (f : N -> N) : rectl h w g -> rectl h w (map (map f) g).
Proof.
  intros [Hh Hw]. split; [now rewrite map_length|]. intros row Hin. apply in_map_iff in Hin. destruct Hin as (r & <- & Hr).
  rewrite map_length. now apply Hw.
Qed.

Lemma fits_rectl h w g rg bt : rectl h w g -> rg <= w -> bt <= h -> fits g rg bt = true.
Proof.
  intros [Hh Hw] H1 H2. unfold fits. apply andb_true_iff. split; [apply Nat.leb_le; lia|].
  apply forallb_forall. intros row Hin. apply in_firstn in Hin. apply Nat.leb_le. rewrite (Hw row Hin). assumption.
Qed.

Section Layer.
Variables (h w : nat) (g : layer).
Hypothesis Hg : rectl h w g.

Lemma row_some y : y < h -> exists row, nth_error g y = Some row /\ length row = w.
Proof.
  intro Hy. destruct Hg as [Hh Hw]. destruct (nth_error g y) as [row|] eqn:E.
  - exists row. split; [reflexivity|]. apply Hw. eapply nth_error_In. eassumption.
  - apply nth_error_None in E. lia.
Qed.
Lemma get_some y x : y < h -> x < w -> exists c, get g y x = Some c.
Proof.
  intros Hy Hx. destruct (row_some y Hy) as (row & E & L). unfold get. rewrite E.
  destruct (nth_error row x) as [c|] eqn:E2; [now exists c|]. apply nth_error_None in E2. lia.
Qed.
Lemma get_inb y x c : get g y x = Some c -> inb h w (x, y).
Proof.
  unfold get. destruct Hg as [Hh Hw]. destruct (nth_error g y) as [row|] eqn:E; [|discriminate]. intro E2.
  assert (nth_error g y <> None) as N1 by congruence. apply nth_error_Some in N1.
  assert (nth_error row x <> None) as N2 by congruence. apply nth_error_Some in N2.
  rewrite (Hw row (nth_error_In _ _ E)) in N2. split; cbn; lia.
Qed.

(* ------------------------------------------------------------------ the directed searches stay inside *)
Variables s a : list N.

Lemma scan_right_safe y : y < h -> forall k x, x + k < w ->
  safe (fun cp => x < fst (snd cp) < w /\ snd (snd cp) = y) (scan_right g s a y k x).
Proof.
  intro Hy. induction k as [|k IH]; intros x Hk; [exact I|]. cbn [scan_right].
  destruct (get_some y (S x) Hy ltac:(lia)) as (c & ->). unfold step.
  destruct (mem c s); [cbn; lia|]. destruct (mem c a); [|exact I].
  apply (safe_mono _ _ _ (IH (S x) ltac:(lia))). intros cp ?. lia.
Qed.
Lemma scan_down_safe x : x < w -> forall k y, y + k < h ->
  safe (fun cp => fst (snd cp) = x /\ y < snd (snd cp) < h) (scan_down g s a x k y).
Proof.
  intro Hx. induction k as [|k IH]; intros y Hk; [exact I|]. cbn [scan_down].
  destruct (get_some (S y) x ltac:(lia) Hx) as (c & ->). unfold step.
  destruct (mem c s); [cbn; lia|]. destruct (mem c a); [|exact I].
  apply (safe_mono _ _ _ (IH (S y) ltac:(lia))). intros cp ?. lia.
Qed.
Lemma scan_left_safe y : y < h -> forall x, x <= w ->
  safe (fun cp => fst (snd cp) < x /\ snd (snd cp) = y) (scan_left g s a y x).
Proof.
  intro Hy. induction x as [|x IH]; intro Hx; [exact I|]. cbn [scan_left].
  destruct (get_some y x Hy ltac:(lia)) as (c & ->). unfold step.
  destruct (mem c s); [cbn; lia|]. destruct (mem c a); [|exact I].
  apply (safe_mono _ _ _ (IH ltac:(lia))). intros cp ?. lia.
Qed.
Lemma scan_up_safe x : x < w -> forall y, y <= h ->
  safe (fun cp => fst (snd cp) = x /\ snd (snd cp) < y) (scan_up g s a x y).
Proof.
  intro Hx. induction y as [|y IH]; intro Hy; [exact I|]. cbn [scan_up].
  destruct (get_some y x ltac:(lia) Hx) as (c & ->). unfold step.
  destruct (mem c s); [cbn; lia|]. destruct (mem c a); [|exact I].
  apply (safe_mono _ _ _ (IH ltac:(lia))). intros cp ?. lia.
Qed.

Lemma search_right_safe cur : inb h w cur ->
  safe (fun cp => fst cur < fst (snd cp) < w /\ snd (snd cp) = snd cur) (search_right g cur s a).
Proof.
  intros [Hx Hy]. unfold search_right. destruct (row_some _ Hy) as (row & -> & L). rewrite L.
  destruct w as [|n] eqn:Ew; [lia|]. rewrite <- Ew in *. apply scan_right_safe; [assumption|lia].
Qed.
Lemma search_down_safe cur : inb h w cur ->
  safe (fun cp => fst (snd cp) = fst cur /\ snd cur < snd (snd cp) < h) (search_down g cur s a).
Proof.
  intros [Hx Hy]. unfold search_down. destruct Hg as [Hh _]. rewrite Hh.
  destruct h as [|n] eqn:Eh; [lia|]. rewrite <- Eh in *. apply scan_down_safe; [assumption|lia].
Qed.
Lemma search_left_safe cur : inb h w cur ->
  safe (fun cp => fst (snd cp) < fst cur /\ snd (snd cp) = snd cur) (search_left g cur s a).
Proof. intros [Hx Hy]. unfold search_left. apply scan_left_safe; [assumption|lia]. Qed.
Lemma search_up_safe cur : inb h w cur ->
  safe (fun cp => fst (snd cp) = fst cur /\ snd (snd cp) < snd cur) (search_up g cur s a).
Proof. intros [Hx Hy]. unfold search_up. apply scan_up_safe; [assumption|lia]. Qed.

Lemma move_to_safe p : 0 < h -> 0 < w -> safe (inb h w) (move_to g p).
Proof.
  intros Hh0 Hw0. unfold move_to. destruct Hg as [Hh Hw]. rewrite Hh.
  set (y := if snd p <? h then snd p else if 0 <? h then h - 1 else 0).
  assert (y < h) as Hy by (unfold y; destruct (Nat.ltb_spec (snd p) h); [assumption|]; destruct (Nat.ltb_spec 0 h); lia).
  destruct (row_some y Hy) as (row & -> & L). rewrite L. unfold safe, inb. cbn [fst snd]. split; [|exact Hy].
  destruct (Nat.ltb_spec (fst p) w); [assumption|]. destruct (Nat.ltb_spec 0 w); lia.
Qed.

Lemma find_row_bound row : forall x c x', find_row s row x = Some (c, x') -> x <= x' < x + length row.
Proof.
  induction row as [|c0 row IH]; intros x c x' E; [discriminate|]. cbn [find_row length] in *.
  destruct (mem c0 s); [injection E as _ <-; lia|]. apply IH in E. lia.
Qed.
Lemma find_rows_bound rows : (forall row, In row rows -> length row = w) ->
  forall y c x' y', find_rows s rows y = Some (c, (x', y')) -> x' < w /\ y <= y' < y + length rows.
Proof.
  induction rows as [|r rows IH]; intros Hw y c x' y' E; [discriminate|]. cbn [find_rows length] in *.
  destruct (find_row s r 0) as [[c0 x0]|] eqn:Er.
  - injection E as _ <- <-. apply find_row_bound in Er. rewrite (Hw r (or_introl eq_refl)) in Er. lia.
  - apply IH in E; [lia|]. intros row Hr. apply Hw. now right.
Qed.
Lemma search_safe cur : inb h w cur -> safe (fun cp => inb h w (snd cp)) (search g cur s).
Proof.
  intros [Hx Hy]. unfold search. destruct cur as [x y]. cbn [fst snd] in *. destruct (row_some y Hy) as (row & -> & L).
  destruct (find_row s (skipn x row) x) as [[c x']|] eqn:E1.
  - apply find_row_bound in E1. rewrite skipn_length, L in E1. cbn. split; cbn; lia.
  - destruct (find_rows s (skipn (S y) g) (S y)) as [[c [x' y']]|] eqn:E2; [|exact I].
    apply find_rows_bound in E2.
    + rewrite skipn_length in E2. destruct Hg as [Hh _]. rewrite Hh in E2. cbn. split; cbn; lia.
    + intros r Hr. apply in_skipn in Hr. now apply Hg.
Qed.
End Layer.

(* ================================================================== rectangles, texts *)
Lemma map_opt_some {A B} (f : A -> option B) l : (forall a, In a l -> f a <> None) -> map_opt f l <> None.
Proof.
  induction l as [|a l IH]; intro Hf; cbn [map_opt]; [discriminate|].
  destruct (f a) eqn:E; [|exfalso; apply (Hf a); [now left|assumption]].
  destruct (map_opt f l) eqn:E2; [discriminate|]. exfalso. apply IH; [|reflexivity]. intros a' Ha'. apply Hf. now right.
Qed.

Lemma text_from_rect_safe h w g r : rectl h w g -> good_rect h w r -> safe (fun _ => True) (text_from_rect g r).
Proof.
  intros [Hh Hw] Hr. destruct r as (((l & t) & rr) & b). cbn [good_rect] in Hr. destruct Hr as (R1 & R2 & R3 & R4).
  unfold text_from_rect. destruct b as [|b']; [lia|]. unfold slice at 1. rewrite Hh.
  replace ((S t <=? b') && (b' <=? h)) with true by (symmetry; apply andb_true_iff; split; apply Nat.leb_le; lia).
  destruct (map_opt (fun row => slice row (S l) (rr - 1)) (firstn (b' - S t) (skipn (S t) g))) eqn:E; [exact I|].
  exfalso. revert E. apply map_opt_some. intros row Hin. apply in_firstn, in_skipn in Hin. unfold slice. rewrite (Hw row Hin).
  replace ((S l <=? rr - 1) && (rr - 1 <=? w)) with true by (symmetry; apply andb_true_iff; split; apply Nat.leb_le; lia). discriminate.
Qed.

Lemma close_rectangle_safe h w closing tl br : fst closing < fst br < w -> snd closing < snd br < h ->
  safe (good_rect h w) (close_rectangle closing tl br).
Proof.
  intros Hx Hy. unfold close_rectangle. destruct (point_eqb closing tl) eqn:E; [|exact I].
  unfold point_eqb in E. apply andb_true_iff in E. destruct E as [E1 E2]. apply Nat.eqb_eq in E1, E2.
  cbn [safe good_rect]. lia.
Qed.

Lemma safe_opt_of {A} (P : A -> Prop) (Q : point * option point * option point -> Prop) (r : res A) k :
  safe P r -> (forall o, safe Q (k o)) -> safe Q (opt_of r k).
Proof. destruct r; cbn; auto. Qed.

Section Passes.
Variables (h w : nat).
Hypothesis Hh0 : 0 < h.
Hypothesis Hw0 : 0 < w.

Section OneLayer.
Variable g : layer.
Hypothesis Hg : rectl h w g.

Lemma walk_tail_safe {B} (Q : B -> Prop) c0 r1 a1 r2 a2 r3 a3 r4 a4 (fin : point -> point -> res B) :
  inb h w c0 ->
  (forall closing br, fst closing < fst br < w -> snd closing < snd br < h -> safe Q (fin closing br)) ->
  safe Q (' (_, c1) <- search_right g c0 r1 a1 ;;
          ' (_, br) <- search_down g c1 r2 a2 ;;
          ' (_, c3) <- search_left g br r3 a3 ;;
          ' (_, closing) <- search_up g c3 r4 a4 ;;
          fin closing br).
Proof.
  intros [C1 C2] Hfin.
  eapply safe_bind; [apply (search_right_safe h w g Hg r1 a1 c0); split; assumption|]. intros [k1 c1] [P1 P1']. cbn [fst snd] in *.
  eapply safe_bind; [apply (search_down_safe h w g Hg r2 a2 c1); split; lia|]. intros [k2 br] [P2 P2']. cbn [fst snd] in *.
  eapply safe_bind; [apply (search_left_safe h w g Hg r3 a3 br); split; lia|]. intros [k3 c3] [P3 P3']. cbn [fst snd] in *.
  eapply safe_bind; [apply (search_up_safe h w g Hg r4 a4 c3); split; lia|]. intros [k4 closing] [P4 P4']. cbn [fst snd] in *.
  apply Hfin; lia.
Qed.

Lemma walk_safe tl r1 a1 r2 a2 r3 a3 r4 a4 : safe (good_rect h w) (walk g tl r1 a1 r2 a2 r3 a3 r4 a4).
Proof.
  unfold walk. eapply safe_bind; [apply (move_to_safe h w g Hg tl Hh0 Hw0)|]. intros c0 Hc0.
  apply (walk_tail_safe (good_rect h w)); [exact Hc0|]. intros closing br A B. now apply close_rectangle_safe.
Qed.

Lemma info_name_safe : safe (fun _ => True) (recognize_information_item_name g).
Proof.
  unfold recognize_information_item_name.
  eapply safe_bind; [apply (move_to_safe h w g Hg _ Hh0 Hw0)|]. intros c0 Hc0.
  eapply safe_bind; [apply (search_safe h w g Hg _ c0 Hc0)|]. intros [k1 tl] Htl. cbn [snd] in Htl.
  eapply safe_bind; [apply (search_safe h w g Hg _ tl Htl)|]. intros [k2 te] Hte.
  destruct (snd tl <? snd te); [|exact I].
  eapply safe_bind; [apply (move_to_safe h w g Hg _ Hh0 Hw0)|]. intros c1 Hc1.
  apply (walk_tail_safe (fun _ => True) c1 _ _ _ _ _ _ _ _
           (fun closing br => r <- close_rectangle closing tl br ;; t <- text_from_rect g r ;; Ok (Some t))); [exact Hc1|].
  intros closing br A B. eapply safe_bind; [apply (close_rectangle_safe h w); eassumption|]. intros r Hr.
  eapply safe_bind; [apply (text_from_rect_safe h w g r Hg Hr)|]. intros; exact I.
Qed.

Lemma crossings_safe : safe (fun _ => True) (recognize_crossings g).
Proof.
  unfold recognize_crossings.
  eapply safe_bind; [apply (move_to_safe h w g Hg _ Hh0 Hw0)|]. intros c0 Hc0.
  eapply safe_bind; [apply (search_safe h w g Hg _ c0 Hc0)|]. intros [k1 p] Hp. cbn [snd] in Hp.
  eapply safe_bind; [apply (move_to_safe h w g Hg _ Hh0 Hw0)|]. intros c1 Hc1.
  eapply safe_opt_of; [apply (search_right_safe h w g Hg _ _ c1 Hc1)|]. intro o1.
  eapply safe_bind; [apply (move_to_safe h w g Hg _ Hh0 Hw0)|]. intros c2 Hc2.
  eapply safe_opt_of; [apply (search_down_safe h w g Hg _ _ c2 Hc2)|]. intro o2. exact I.
Qed.

Definition body_ok (r : rect) : Prop := let '(l, t, rg, bt) := r in rg <= w /\ bt <= h /\ S t <= h.

Lemma body_rect_safe : safe body_ok (recognize_body_rect g).
Proof.
  unfold recognize_body_rect.
  eapply safe_bind; [apply (move_to_safe h w g Hg _ Hh0 Hw0)|]. intros c0 Hc0.
  eapply safe_bind; [apply (search_safe h w g Hg _ c0 Hc0)|]. intros [k1 cp] [Hp1 Hp2]. cbn [fst snd] in *.
  eapply safe_bind; [apply (search_up_safe h w g Hg _ _ cp); split; assumption|]. intros [k2 tp] [T1 T2]. cbn [fst snd] in *.
  eapply safe_bind; [apply (search_down_safe h w g Hg _ _ tp); split; lia|]. intros [k3 bp] [B1 B2]. cbn [fst snd] in *.
  eapply safe_bind; [apply (move_to_safe h w g Hg _ Hh0 Hw0)|]. intros c1 [D1 D2].
  eapply safe_bind; [apply (search_left_safe h w g Hg _ _ c1); split; assumption|]. intros [k4 lp] [L1 L2]. cbn [fst snd] in *.
  eapply safe_bind; [apply (search_right_safe h w g Hg _ _ lp); split; lia|]. intros [k5 rp] [R1 R2]. cbn [fst snd] in *.
  cbn [safe body_ok]. lia.
Qed.
End OneLayer.

Lemma remove_region_safe blank thin r : rectl h w blank -> body_ok r ->
  safe (rectl h w) (remove_information_item_region blank thin r).
Proof.
  intros Hb Hr. destruct r as (((lf & tp) & rg) & bt). cbn [body_ok] in Hr. destruct Hr as (R1 & R2 & R3).
  unfold remove_information_item_region. rewrite (fits_rectl h w) by (try assumption; apply Nat.max_lub; lia).
  cbn [safe]. now apply rectl_remap.
Qed.

Lemma make_grid_safe body r : rectl h w body -> body_ok r -> safe (rectl h w) (make_grid body r).
Proof.
  intros Hb Hr. destruct r as (((lf & tp) & rg) & bt). cbn [body_ok] in Hr. destruct Hr as (R1 & R2 & R3).
  unfold make_grid. rewrite (fits_rectl h w) by (try assumption; lia).
  cbn [safe]. apply rectl_remap. apply rectl_mapi; [assumption|]. intros y row.
  destruct (in_range tp bt y && existsb (N.eqb cH) (firstn (rg - lf) (skipn lf row))); [|reflexivity].
  unfold mapi. apply mapi_from_length.
Qed.

Definition canvas_ok (cv : canvas) : Prop := rectl h w (cv_text cv) /\ rectl h w (cv_thin cv) /\ rectl h w (cv_grid cv).

Lemma scan_from_safe txt blank : rectl h w txt -> rectl h w blank -> safe canvas_ok (scan_from txt blank).
Proof.
  intros Ht Hb. unfold scan_from.
  eapply safe_bind; [apply (info_name_safe txt Ht)|]. intros name _.
  eapply safe_bind; [apply (crossings_safe txt Ht)|]. intros [[cross horz] vert] _.
  eapply safe_bind; [apply (body_rect_safe txt Ht)|]. intros r Hr.
  eapply safe_bind; [apply (remove_region_safe blank (map (map prep) txt) r Hb Hr)|]. intros body Hbody.
  eapply safe_bind; [apply (make_grid_safe body r Hbody Hr)|]. intros grid Hgrid.
  cbn [safe canvas_ok cv_text cv_thin cv_grid]. repeat split; try apply Ht; try apply Hgrid; apply (rectl_map h w txt prep Ht).
Qed.

(* ------------------------------------------------------------------ Canvas::plane *)
Lemma map_res_safe {A B} (P : B -> Prop) (f : A -> res B) l :
  (forall a, In a l -> safe P (f a)) -> safe (fun bs => forall b, In b bs -> P b) (map_res f l).
Proof.
  induction l as [|a l IH]; intro Hf; [cbn; tauto|]. cbn [map_res].
  eapply safe_bind; [apply Hf; now left|]. intros b Hb.
  eapply safe_bind; [apply IH; intros; apply Hf; now right|]. intros bs Hbs. cbn [safe]. intros b' [<-|Hin]; auto.
Qed.
Lemma fold_res_safe {A B} (F : A -> B -> res A) l : (forall a b, safe (fun _ => True) (F a b)) ->
  forall a, safe (fun _ => True) (fold_res F l a).
Proof.
  intro HF. induction l as [|b l IH]; intro a; [exact I|]. cbn [fold_res]. eapply safe_bind; [apply HF|]. intros a' _. apply IH.
Qed.
Lemma find_region_in regions r : forall i k region, find_region regions r i = Some (k, region) -> In region regions.
Proof.
  induction regions as [|a rest IH]; intros i k region E; [discriminate|]. cbn [find_region] in E.
  destruct (contains a r); [injection E as _ <-; now left|]. right. eapply IH. eassumption.
Qed.

Section Plane.
Variable cv : canvas.
Hypothesis Hcv : canvas_ok cv.
Variable regions : list rect.
Hypothesis Hreg : forall r, In r regions -> good_rect h w r.

Lemma plane_cell_safe y st x : safe (fun _ => True) (plane_cell cv regions y st x).
Proof.
  destruct Hcv as (Ht & _ & Hgr). unfold plane_cell. destruct (is_tl_corner (cv_grid cv) y x); [|exact I].
  destruct st as (((cells & col) & cc) & ch).
  assert (forall (cells1 : list ccell) (col1 : nat) (cc1 ch1 : option nat),
            safe (fun _ : row_state => True)
              (rect <- recognize_rectangle (cv_grid cv) (x, y) ;;
               match find_region regions rect 0 with
               | Some (i, region) => t <- text_from_rect (cv_text cv) region ;; Ok (CRegion i region t :: cells1, S col1, cc1, ch1)
               | None => Err
               end)) as Fin.
  { intros. eapply safe_bind; [apply (walk_safe (cv_grid cv) Hgr)|]. intros rect _.
    destruct (find_region regions rect 0) as [[i region]|] eqn:F; [|exact I].
    eapply safe_bind; [apply (text_from_rect_safe h w _ region Ht); apply Hreg; eapply find_region_in; eassumption|]. intros; exact I. }
  destruct (x =? fst (cv_cross cv)); destruct (cv_horz cv) as [p|]; try destruct (x =? fst p); apply Fin.
Qed.

Lemma plane_line_safe st y : safe (fun _ => True) (plane_line cv regions st y).
Proof.
  destruct st as (((rows & width) & cc) & ch). unfold plane_line. cbv zeta.
  eapply safe_bind; [apply fold_res_safe; intros; apply plane_cell_safe|]. intros (((cells & c) & cc') & ch') _.
  destruct cells; exact I.
Qed.
End Plane.

Lemma plane_of_safe cv : canvas_ok cv -> safe (fun _ => True) (plane_of cv).
Proof.
  intro Hcv. unfold plane_of.
  eapply safe_bind; [apply (map_res_safe (good_rect h w)); intros p _; apply (walk_safe (cv_thin cv)); apply Hcv|]. intros regions Hreg.
  eapply safe_bind; [apply fold_res_safe; intros; now apply plane_line_safe|]. intros (((rows & wd) & cc) & ch) _.
  unfold finalize. destruct (_ || _); exact I.
Qed.
End Passes.

(* ================================================================== text -> layers: a rectangle or the one-line canvas *)
Definition lines_inv (st : bool * bool * list (list N) * nat) : Prop :=
  let '(_, _, rows, width) := st in forall r, In r rows -> 1 <= length r <= width.

Lemma scan_line_inv st line : lines_inv st -> lines_inv (scan_line st line).
Proof.
  destruct st as (((start & endd) & rows) & width). intro Hi. unfold scan_line.
  destruct (trim line) as [|c0 l'] eqn:E; [exact Hi|]. cbv zeta.
  set (start' := if (c0 =? cTL)%N && negb start && negb endd then true else start).
  destruct (start' && negb endd); cbn [lines_inv] in *.
  - intros r [<-|Hr]; [cbn [length]; lia|]. specialize (Hi r Hr). lia.
  - exact Hi.
Qed.
Lemma scan_lines_inv ls : forall st, lines_inv st -> lines_inv (fold_left scan_line ls st).
Proof. induction ls as [|l ls IH]; intros st Hi; [exact Hi|]. cbn [fold_left]. apply IH. now apply scan_line_inv. Qed.

Lemma pad_length wd c row : length row <= wd -> length (pad wd c row) = wd.
Proof. intro Hl. unfold pad. rewrite app_length, repeat_length. lia. Qed.

Lemma scan_layers_shape text :
  let (txt, blank) := scan_layers text in
  (exists h w, 0 < h /\ 0 < w /\ rectl h w txt /\ rectl h w blank) \/ (txt = [[]] /\ blank = [[]]).
Proof.
  unfold scan_layers.
  pose proof (scan_lines_inv (split_lines text []) (false, false, [], 0)) as Hi.
  destruct (fold_left scan_line (split_lines text []) (false, false, [], 0)) as (((st & en) & rows) & width).
  assert (lines_inv (st, en, rows, width)) as Hinv by (apply Hi; cbn; tauto). clear Hi. cbn [lines_inv] in Hinv.
  destruct rows as [|r0 rows]; [right; split; reflexivity|].
  assert (0 < width) as Hw by (specialize (Hinv r0 (or_introl eq_refl)); lia).
  replace (0 <? length (r0 :: rows)) with true by reflexivity. replace (0 <? width) with true by (symmetry; now apply Nat.ltb_lt).
  cbn [andb]. left. exists (length (rev (r0 :: rows) ++ [[]])), width.
  assert (forall r, In r (rev (r0 :: rows) ++ [[]]) -> length r <= width) as Hle.
  { intros r Hr. apply in_app_or in Hr. destruct Hr as [Hr|[<-|[]]]; [|cbn; lia]. apply in_rev in Hr. specialize (Hinv r Hr). lia. }
  repeat split; try assumption.
  - rewrite app_length. cbn [length]. lia.
  - apply map_length.
  - intros row Hrow. apply in_map_iff in Hrow. destruct Hrow as (r & <- & Hr). apply pad_length. now apply Hle.
  - apply map_length.
  - intros row Hrow. apply in_map_iff in Hrow. destruct Hrow as (r & <- & Hr). apply pad_length. rewrite repeat_length. now apply Hle.
Qed.

(* ================================================================== totality *)
Theorem canvas_total : forall text, canvas_cplane text <> Panic.
Proof.
  intro text. unfold canvas_cplane, scan. pose proof (scan_layers_shape text) as Hs.
  destruct (scan_layers text) as [txt blank]. destruct Hs as [(h & w & Hh & Hw & Ht & Hb)|[-> ->]].
  - apply (safe_not_panic (fun _ => True)).
    eapply safe_bind; [apply (scan_from_safe h w Hh Hw txt blank Ht Hb)|]. intros cv Hcv.
    eapply safe_bind; [apply (plane_of_safe h w Hh Hw cv Hcv)|]. intros; exact I.
  - vm_compute. discriminate.
Qed.

(* the same for any rectangular grid handed to the passes directly *)
Theorem canvas_total_grid h w txt blank : 0 < h -> 0 < w -> rectl h w txt -> rectl h w blank ->
  (cv <- scan_from txt blank ;; p <- plane_of cv ;; Ok (cv_name cv, p)) <> Panic.
Proof.
  intros Hh Hw Ht Hb. apply (safe_not_panic (fun _ => True)).
  eapply safe_bind; [apply (scan_from_safe h w Hh Hw txt blank Ht Hb)|]. intros cv Hcv.
  eapply safe_bind; [apply (plane_of_safe h w Hh Hw cv Hcv)|]. intros; exact I.
Qed.
