//! `dv types`: requests {"op":"matrix","types":[T..]} | {"op":"coerce","t":T,"v":V} | {"op":"typeof","v":V}
//! T: "number" | {"list":T} | {"range":T} | {"ctx":[[key,T]..]} | {"fun":[[T..],T]}
//! V: null | {"a":[simple, n]} | {"l":[V..]} | {"c":[[key,V]..]} | {"r":[V,V]} | {"f":[[T..],T]}
use crate::canon::panic_text;
use dmntk_feel::context::FeelContext;
use dmntk_feel::values::{Value, Values};
use dmntk_feel::{FeelNumber, FeelType, FunctionBody, Name, Scope};
use serde_json::{json, Value as J};
use std::collections::BTreeMap;
use std::io::{BufRead, Write};
use std::str::FromStr;
use std::sync::Arc;

pub fn ty(j: &J) -> FeelType {
  if let Some(s) = j.as_str() {
    return FeelType::from_str(s).unwrap();
  }
  if let Some(t) = j.get("list") {
    return FeelType::List(Box::new(ty(t)));
  }
  if let Some(t) = j.get("range") {
    return FeelType::Range(Box::new(ty(t)));
  }
  if let Some(es) = j.get("ctx") {
    let mut m = BTreeMap::new();
    for e in es.as_array().unwrap() {
      m.insert(Name::from(e[0].as_str().unwrap()), ty(&e[1]));
    }
    return FeelType::Context(m);
  }
  if let Some(f) = j.get("fun") {
    let ps: Vec<FeelType> = f[0].as_array().unwrap().iter().map(ty).collect();
    return FeelType::Function(ps, Box::new(ty(&f[1])));
  }
  panic!("bad type {}", j)
}

fn feel(text: &str) -> Value {
  let scope = Scope::default();
  let node = dmntk_feel_parser::parse_expression(&scope, text, false).unwrap();
  dmntk_feel_evaluator::evaluate(&scope, &node).unwrap()
}

pub fn val(j: &J) -> Value {
  if j.is_null() {
    return Value::Null(None);
  }
  if let Some(a) = j.get("a") {
    let p = a[1].as_u64().unwrap();
    return match a[0].as_str().unwrap() {
      "number" => Value::Number(FeelNumber::from_i128(p as i128)),
      "string" => Value::String(format!("s{}", p)),
      "boolean" => Value::Boolean(p % 2 == 1),
      "date" => feel(&format!("date(\"2000-01-{:02}\")", 1 + p % 28)),
      "time" => feel(&format!("time(\"10:00:{:02}\")", p % 60)),
      "date and time" => feel(&format!("date and time(\"2000-01-01T10:00:{:02}\")", p % 60)),
      "days and time duration" => feel(&format!("duration(\"PT{}S\")", p)),
      "years and months duration" => feel(&format!("duration(\"P{}M\")", p)),
      other => panic!("bad atom {}", other),
    };
  }
  if let Some(l) = j.get("l") {
    return Value::List(Values::new(l.as_array().unwrap().iter().map(val).collect()));
  }
  if let Some(c) = j.get("c") {
    let mut ctx = FeelContext::default();
    for e in c.as_array().unwrap() {
      ctx.set_entry(&Name::from(e[0].as_str().unwrap()), val(&e[1]));
    }
    return Value::Context(ctx);
  }
  if let Some(r) = j.get("r") {
    return Value::Range(Box::new(val(&r[0])), true, Box::new(val(&r[1])), true);
  }
  if let Some(f) = j.get("f") {
    let ps: Vec<(Name, FeelType)> = f[0].as_array().unwrap().iter().enumerate().map(|(i, t)| (Name::from(format!("p{}", i).as_str()), ty(t))).collect();
    let body = FunctionBody::LiteralExpression(Arc::new(Box::new(|_: &Scope| Value::Null(None))));
    return Value::FunctionDefinition(ps, body, ty(&f[1]));
  }
  panic!("bad value {}", j)
}

fn one(req: &J) -> J {
  match req["op"].as_str().unwrap_or("") {
    "matrix" => {
      let ts: Vec<FeelType> = req["types"].as_array().unwrap().iter().map(ty).collect();
      let mut eq = vec![];
      let mut conf = vec![];
      for a in &ts {
        let mut r1 = String::new();
        let mut r2 = String::new();
        for b in &ts {
          r1.push(if a.is_equivalent(b) { '1' } else { '0' });
          r2.push(if a.is_conformant(b) { '1' } else { '0' });
        }
        eq.push(r1);
        conf.push(r2);
      }
      json!({"eq": eq, "conf": conf})
    }
    "pairs" => {
      let ps = req["pairs"].as_array().unwrap();
      let mut out = String::new();
      for p in ps {
        let (a, b) = (ty(&p[0]), ty(&p[1]));
        out.push(if a.is_equivalent(&b) { '1' } else { '0' });
        out.push(if a.is_conformant(&b) { '1' } else { '0' });
      }
      json!({"rel": out})
    }
    "coerce" => {
      let t = ty(&req["t"]);
      let v = val(&req["v"]);
      let r = t.coerced(&v);
      let class = if r == v {
        "same"
      } else if r == Value::List(Values::new(vec![v.clone()])) {
        "wrap"
      } else if v == Value::List(Values::new(vec![r.clone()])) {
        "unwrap"
      } else if r.is_null() {
        "null"
      } else {
        "other"
      };
      let again = t.coerced(&r);
      json!({"class": class, "type_of": v.type_of().to_string(), "result_conforms": r.type_of().is_conformant(&t), "result_null": r.is_null(), "idempotent": again == r, "target": t.to_string()})
    }
    _ => json!({"err": "op"}),
  }
}

pub fn main() {
  let stdin = std::io::stdin();
  let stdout = std::io::stdout();
  let mut out = std::io::BufWriter::new(stdout.lock());
  for line in stdin.lock().lines() {
    let line = line.unwrap();
    if line.trim().is_empty() {
      continue;
    }
    let req: J = serde_json::from_str(&line).unwrap_or(J::Null);
    let r = std::panic::catch_unwind(|| one(&req)).unwrap_or_else(|e| json!({"panic": panic_text(e)}));
    writeln!(out, "{}", r).unwrap();
  }
  out.flush().unwrap();
}
