(* C06 — extended expression language, from TEXT to TREE for ALL token lists of C06.ModelExt (binders and function definitions
   included): under the condition etrack_ok (the pushdown of C06.LexBind sets till_in exactly in front of the bindings and type_name
   exactly behind the colon of a typed formal parameter) the concrete token list is printable in the sense of C06.LexBind and is
   read back by eabs_b, hence parse_text_all on the printed text = the extended Spec parser on the token list.
   (C06.ExtTrack shows that etrack_ok holds for both renderings of every tree.)  Owner: prover-C06-binders. *)
From Coq Require Import List NArith Bool Arith Lia.
From DV Require Import C06.Model C06.ModelExt C06.Lexer C06.LexerProofs C06.LexerText C06.LexBind C06.LexBindProofs C06.ExtLex C06.ExtLexAll C06.ExtFuel.
From DV Require C06.ExtText C06.ExtNeeded.
Import ListNotations.

(* ------------------------------------------------------------------ the pushdown sees the classes *)

Lemma lclass_econc : forall keys enc dec tk, atoms_ok keys enc dec -> map lclass (econc keys enc tk) = eclass tk.
Proof.
  intros keys enc dec tk Ha. destruct tk; try reflexivity.
  - destruct (Ha a) as [H1 _]. cbn [econc map eclass]. destruct (enc a) as [k|s|b| |b c|s|m|m|m]; try discriminate H1; reflexivity.
  - destruct o; reflexivity.
  - destruct ty; reflexivity.
Qed.

Lemma atom_class : forall keys enc dec a, atoms_ok keys enc dec -> lclass (enc a) = CAtom.
Proof. intros keys enc dec a Ha. destruct (Ha a) as [H1 _]. destruct (enc a); try discriminate H1; reflexivity. Qed.

Lemma wt_cstep : forall st c, c <> CColon -> t_wt (cstep st c) = false.
Proof.
  intros st c H. unfold cstep. destruct (settle (t_stk st) (t_q st) c) as [s1 q1].
  destruct (match q1 with QIdle => _ | _ => _ end) as [s2 q2]. destruct c; try reflexivity. contradiction H. reflexivity.
Qed.

Lemma wb_cstep : forall st c, c <> CHdr -> c <> CComma -> t_wb (cstep st c) = false.
Proof.
  intros st c H1 H2. unfold cstep. destruct (settle (t_stk st) (t_q st) c) as [s1 q1].
  destruct (match q1 with QIdle => _ | _ => _ end) as [s2 q2]. destruct c; try reflexivity; [contradiction H1|contradiction H2]; reflexivity.
Qed.

Lemma wb_hdr : forall st, t_wb (cstep st CHdr) = true.
Proof.
  intros st. unfold cstep. destruct (settle (t_stk st) (t_q st) CHdr) as [s1 q1].
  destruct (match q1 with QIdle => _ | _ => _ end) as [s2 q2]. reflexivity.
Qed.

(* ------------------------------------------------------------------ the concrete token list is printable *)

Definition mkfl (u b ty ti : bool) : flags := {| f_unary := u; f_between := b; f_type := ty; f_tillin := ti |}.

Lemma key_mem : forall keys n, key_in keys n = true -> NM.mem (nth_str keys n) keys = true.
Proof. intros keys n H. apply in_mem. unfold nth_str. apply nth_In. unfold key_in in H. apply N.ltb_lt in H. lia. Qed.

Lemma type_mem : forall ty, (ty <? 6)%N = true -> NM.mem (nth_str type_words ty) type_words = true.
Proof. intros ty H. apply in_mem. unfold nth_str. apply nth_In. apply N.ltb_lt in H. cbn [length type_words]. lia. Qed.

Ltac wt_off := repeat match goal with |- context [t_wt (cstep ?s ?c)] => rewrite (wt_cstep s c) by discriminate end.
Ltac wb_off := repeat match goal with |- context [t_wb (cstep ?s ?c)] => rewrite (wb_cstep s c) by discriminate end.
Ltac flags_norm := unfold policy_b, after_b, clr_unary, set_between, set_type, set_tillin, lstep;
  cbn [f_unary f_between f_type f_tillin lclass orb andb negb]; wt_off; rewrite ?orb_false_r; cbn [orb].

Ltac fin IH := apply IH; [first [reflexivity | symmetry; apply wb_cstep; discriminate]|assumption|assumption|assumption].

Section All.
  Variable keys : list str.
  Variable enc : N -> ltoken.
  Variable dec : ltoken -> option N.
  Hypothesis Hkeys : keys_ok keys = true.
  Hypothesis Hatoms : atoms_ok keys enc dec.

  Lemma printable_b_econc : forall ts st u b ti, ti = t_wb st ->
    eflag_ok b ts = true -> forallb (names_all keys) ts = true -> etrack_ok st ts = true ->
    printable_b keys st (mkfl u b false ti) (econc_all keys enc ts) = true.
  Proof.
    induction ts as [|tk r IH]; intros st u b ti Eti Hf Hn Ht; [reflexivity|]. subst ti.
    cbn [forallb] in Hn. apply andb_true_iff in Hn. destruct Hn as [Hn Hnr].
    cbn [etrack_ok] in Ht. apply andb_true_iff in Ht. destruct Ht as [Hk Htr].
    unfold econc_all. cbn [flat_map]. fold (econc_all keys enc r). unfold estep in Htr. unfold mkfl in *.
    destruct tk; cbn [ek_ok] in Hk; cbn [eclass fold_left] in Htr; cbn [names_all] in Hn; cbn [econc app printable_b].
    - (* XAtom *)
      apply andb_true_iff in Hk. destruct Hk as [Hwb _]. apply negb_true_iff in Hwb. rewrite Hwb.
      destruct (Hatoms a) as [H1 [_ H3]]. pose proof (atom_class keys enc dec a Hatoms) as Hc.
      pose proof (atom_tok_ok keys {| f_unary := u; f_between := b; f_type := false; f_tillin := false |} (enc a) H1 eq_refl H3) as Hok.
      replace (tok_ok_b keys {| f_unary := u; f_between := b; f_type := false; f_tillin := false |} (enc a) (econc_all keys enc r)) with true
        by (symmetry; unfold tok_ok_b; cbn [f_tillin]; destruct (enc a) as [k|s|c| |c d|s|m|m|m]; try discriminate H1; exact Hok).
      cbn [andb]. unfold lstep. rewrite Hc.
      replace (policy_b (cstep st CAtom) (enc a) (after_b {| f_unary := u; f_between := b; f_type := false; f_tillin := false |} (enc a)))
        with {| f_unary := false; f_between := b; f_type := false; f_tillin := t_wb (cstep st CAtom) |}.
      + fin IH.
      + destruct (enc a) as [k|s|c| |c d|s|m|m|m]; try discriminate H1; flags_norm; reflexivity.
    - (* XOp *)
      apply negb_true_iff in Hk. rewrite Hk.
      destruct o; cbn [eflag_ok] in Hf; cbn [op_tok tok_ok_b tok_ok f_tillin f_between andb]; flags_norm;
        try (fin IH).
      apply andb_true_iff in Hf. destruct Hf as [Hb Hf]. rewrite Hb. cbn [andb]. fin IH.
    - apply negb_true_iff in Hk. rewrite Hk. cbn [tok_ok_b tok_ok f_tillin f_type f_between f_unary andb orb negb]. flags_norm. fin IH.
    - apply negb_true_iff in Hk. rewrite Hk. cbn [tok_ok_b tok_ok f_tillin f_type f_between f_unary andb orb negb]. flags_norm. fin IH.
    - apply negb_true_iff in Hk. rewrite Hk. cbn [tok_ok_b tok_ok f_tillin f_type f_between f_unary andb orb negb]. flags_norm. fin IH.
    - apply negb_true_iff in Hk. rewrite Hk. cbn [tok_ok_b tok_ok f_tillin f_type f_between f_unary andb orb negb]. flags_norm. fin IH.
    - apply negb_true_iff in Hk. rewrite Hk. cbn [tok_ok_b tok_ok f_tillin f_type f_between f_unary andb orb negb]. flags_norm. fin IH.
    - apply negb_true_iff in Hk. rewrite Hk. cbn [tok_ok_b tok_ok f_tillin f_type f_between f_unary andb orb negb]. flags_norm. fin IH.
    - (* XBetween *)
      apply negb_true_iff in Hk. rewrite Hk. cbn [tok_ok_b tok_ok f_tillin f_type f_between f_unary andb orb negb]. flags_norm. cbn [eflag_ok] in Hf.
      rewrite orb_true_r. fin IH.
    - (* XBand *)
      apply negb_true_iff in Hk. rewrite Hk. cbn [eflag_ok] in Hf. apply andb_true_iff in Hf. destruct Hf as [Hb Hf].
      cbn [tok_ok_b tok_ok f_tillin f_type f_between f_unary andb orb negb]. rewrite Hb. cbn [andb]. flags_norm. fin IH.
    - (* XInst *)
      apply negb_true_iff in Hk. rewrite Hk. cbn [tok_ok_b tok_ok f_tillin f_type f_between f_unary andb orb negb]. flags_norm. wb_off. cbn [tok_ok_b tok_ok f_tillin f_type f_between f_unary andb orb negb].
      rewrite (type_mem ty Hn). cbn [andb]. flags_norm. cbn [eflag_ok] in Hf. fin IH.
    - (* XDot *)
      apply negb_true_iff in Hk. rewrite Hk. cbn [tok_ok_b tok_ok f_tillin f_type f_between f_unary andb orb negb]. flags_norm. wb_off. cbn [tok_ok_b tok_ok f_tillin f_type f_between f_unary andb orb negb].
      rewrite (key_mem keys n Hn). cbn [andb]. flags_norm. cbn [eflag_ok] in Hf. fin IH.
    - apply negb_true_iff in Hk. rewrite Hk. cbn [tok_ok_b tok_ok f_tillin f_type f_between f_unary andb orb negb]. flags_norm. fin IH.
    - apply negb_true_iff in Hk. rewrite Hk. cbn [tok_ok_b tok_ok f_tillin f_type f_between f_unary andb orb negb]. flags_norm. fin IH.
    - (* XKey *)
      rewrite !andb_true_iff in Hk. destruct Hk as [[Hwb _] Hwt]. apply negb_true_iff in Hwb, Hwt. rewrite Hwb.
      cbn [tok_ok_b tok_ok f_tillin f_type f_between f_unary andb orb negb]. rewrite (key_mem keys n Hn). cbn [andb]. flags_norm. wb_off.
      cbn [tok_ok_b tok_ok f_tillin f_type f_between f_unary andb orb negb].
      unfold policy_b, after_b, clr_unary, lstep; cbn [f_unary f_between f_type f_tillin lclass orb]. rewrite Hwt.
      rewrite ?orb_false_r. cbn [orb eflag_ok] in *. fin IH.
    - (* XBind *)
      rewrite Hk. pose proof Hn as Hin.
      cbn [tok_ok_b f_tillin orb]. rewrite (key_word keys _ Hkeys (key_mem keys n Hin)). cbn [negb andb].
      unfold policy_b, after_b, clr_unary, set_tillin, lstep; cbn [f_unary f_between f_type f_tillin lclass orb]. wt_off. wb_off. rewrite ?orb_false_r. cbn [orb].
      cbn [tok_ok_b tok_ok f_tillin f_type f_between f_unary andb orb negb]. flags_norm. cbn [eflag_ok] in Hf. fin IH.
    - (* XPar *)
      destruct ty as [ty|].
      + rewrite !andb_true_iff in Hk. destruct Hk as [[Hwb _] Hwt]. apply negb_true_iff in Hwb. rewrite Hwb.
        apply andb_true_iff in Hn. destruct Hn as [Hin Hty].
        cbn [econc app printable_b]. cbn [tok_ok_b tok_ok f_tillin f_type f_between f_unary andb orb negb]. rewrite (key_mem keys n Hin). cbn [andb]. flags_norm. wb_off.
        cbn [tok_ok_b tok_ok f_tillin f_type f_between f_unary andb orb negb].
        unfold policy_b, after_b, clr_unary, lstep; cbn [f_unary f_between f_type f_tillin lclass orb]. rewrite Hwt.
        rewrite ?orb_false_r, ?orb_true_r. wb_off. cbn [orb]. cbn [tok_ok_b tok_ok f_tillin f_type f_between f_unary andb orb negb]. rewrite (type_mem ty Hty). cbn [andb]. flags_norm.
        cbn [eflag_ok] in Hf. cbn [eclass fold_left] in Htr. fin IH.
      + rewrite !andb_true_iff in Hk. destruct Hk as [Hwb _]. apply negb_true_iff in Hwb. rewrite Hwb.
        cbn [econc app printable_b]. cbn [tok_ok_b tok_ok f_tillin f_type f_between f_unary andb orb negb]. rewrite (key_mem keys n Hn). cbn [andb]. flags_norm.
        cbn [eflag_ok] in Hf. cbn [eclass fold_left] in Htr. fin IH.
    - apply negb_true_iff in Hk. rewrite Hk. cbn [tok_ok_b tok_ok f_tillin f_type f_between f_unary andb orb negb]. flags_norm. fin IH.
    - apply negb_true_iff in Hk. rewrite Hk. cbn [tok_ok_b tok_ok f_tillin f_type f_between f_unary andb orb negb]. flags_norm. fin IH.
    - apply negb_true_iff in Hk. rewrite Hk. cbn [tok_ok_b tok_ok f_tillin f_type f_between f_unary andb orb negb]. flags_norm. fin IH.
    - apply negb_true_iff in Hk. rewrite Hk. cbn [tok_ok_b tok_ok f_tillin f_type f_between f_unary andb orb negb]. flags_norm. fin IH.
    - apply negb_true_iff in Hk. rewrite Hk. cbn [tok_ok_b tok_ok f_tillin f_type f_between f_unary andb orb negb]. flags_norm. fin IH.
    - apply negb_true_iff in Hk. rewrite Hk. cbn [tok_ok_b tok_ok f_tillin f_type f_between f_unary andb orb negb]. flags_norm. fin IH.
    - apply negb_true_iff in Hk. rewrite Hk. cbn [tok_ok_b tok_ok f_tillin f_type f_between f_unary andb orb negb]. flags_norm. fin IH.
    - apply negb_true_iff in Hk. rewrite Hk. cbn [tok_ok_b tok_ok f_tillin f_type f_between f_unary andb orb negb]. flags_norm. fin IH.
    - (* XFun *)
      apply andb_true_iff in Hk. destruct Hk as [Hwb Hnext]. apply negb_true_iff in Hwb. rewrite Hwb.
      assert (Hlp : exists r', econc_all keys enc r = LSym SLp :: r').
      { destruct r as [|t2 r']; [discriminate Hnext|]. destruct t2; try discriminate Hnext. eexists. reflexivity. }
      destruct Hlp as [r' Er]. cbn [tok_ok_b f_tillin orb]. rewrite Er. cbn [andb]. rewrite <- Er. flags_norm. cbn [eflag_ok] in Hf. fin IH.
  Qed.

  (* ---------------------------------------------------------------- eabs_b after econc *)

  Lemma colon_skip : forall (T : Type) (rest : list ltoken) (A : list ltoken -> T) (B : T), ExtText.no_colon rest ->
    match rest with LSym SColon :: r2 => A r2 | _ => B end = B.
  Proof.
    intros T rest A B H. destruct rest as [|l0 r0]; [reflexivity|]. destruct l0 as [k|s|b| |b c|s|m0|m0|m0]; try reflexivity.
    destruct s; try reflexivity. destruct H.
  Qed.

  Lemma colon_type_skip : forall (T : Type) (rest : list ltoken) (A : str -> list ltoken -> T) (B : T), ExtText.no_colon rest ->
    match rest with LSym SColon :: LType ty :: r2 => A ty r2 | _ => B end = B.
  Proof.
    intros T rest A B H. destruct rest as [|l0 r0]; [reflexivity|]. destruct l0 as [k|s|b| |b c|s|m0|m0|m0]; try reflexivity.
    destruct s; try reflexivity. destruct H.
  Qed.

  Lemma key_pos : forall n, key_in keys n = true -> pos_of (nth_str keys n) keys 0 = Some n.
  Proof.
    intros n H. apply pos_of_nth_str; [|exact H]. unfold keys_ok in Hkeys. rewrite !andb_true_iff in Hkeys. tauto.
  Qed.

  Lemma eabs_b_econc : forall ts st, forallb (names_all keys) ts = true -> etrack_ok st ts = true ->
    eabs_b keys dec st (econc_all keys enc ts) = Some ts.
  Proof.
    induction ts as [|tk r IH]; intros st Hn Ht; [reflexivity|].
    cbn [forallb] in Hn. apply andb_true_iff in Hn. destruct Hn as [Hn Hnr].
    cbn [etrack_ok] in Ht. apply andb_true_iff in Ht. destruct Ht as [Hk Htr].
    unfold econc_all. cbn [flat_map]. fold (econc_all keys enc r). unfold estep in Htr.
    pose proof (ExtText.econc_all_no_colon keys enc dec r Hatoms) as Hnc.
    destruct tk; cbn [ek_ok] in Hk; cbn [eclass fold_left] in Htr; cbn [names_all] in Hn; cbn [econc app];
      try (cbn [eabs_b]; unfold lstep; cbn [lclass]; rewrite (IH _ Hnr Htr); reflexivity).
    - (* XAtom *)
      rewrite !andb_true_iff in Hk. destruct Hk as [Hwb Hpar]. apply negb_true_iff in Hwb, Hpar.
      destruct (Hatoms a) as [H1 [H2 _]]. pose proof (atom_class keys enc dec a Hatoms) as Hc.
      assert (Hst : eabs_b keys dec (lstep st (enc a)) (econc_all keys enc r) = Some r) by (unfold lstep; rewrite Hc; apply IH; assumption).
      destruct (enc a) as [k|s|b| |b c|s|m|m|m] eqn:Ea; try discriminate H1;
        try (cbn [eabs_b tok_op is_atom_tok]; rewrite H2, Hst; reflexivity).
      cbn [eabs_b]. rewrite Hwb, Hpar. rewrite colon_skip by exact Hnc. rewrite H2, Hst. reflexivity.
    - (* XOp *)
      destruct o; cbn [op_tok eabs_b tok_op]; unfold lstep; cbn [lclass]; rewrite (IH _ Hnr Htr); reflexivity.
    - (* XInst *)
      cbn [eabs_b]. rewrite (pos_of_nth_str type_words ty eq_refl Hn). unfold lstep; cbn [lclass]. rewrite (IH _ Hnr Htr). reflexivity.
    - (* XDot *)
      cbn [eabs_b]. rewrite (key_pos n Hn). unfold lstep; cbn [lclass]. rewrite (IH _ Hnr Htr). reflexivity.
    - (* XKey *)
      rewrite !andb_true_iff in Hk. destruct Hk as [[Hwb Hpar] _]. apply negb_true_iff in Hwb, Hpar.
      cbn [eabs_b]. rewrite Hwb, Hpar. rewrite (key_pos n Hn). unfold lstep; cbn [lclass]. rewrite (IH _ Hnr Htr). reflexivity.
    - (* XBind *)
      pose proof Hn as Hin.
      cbn [eabs_b]. rewrite Hk. rewrite (key_pos n Hin). unfold lstep; cbn [lclass]. rewrite (IH _ Hnr Htr). reflexivity.
    - (* XPar *)
      destruct ty as [ty|]; cbn [econc app].
      + rewrite !andb_true_iff in Hk. destruct Hk as [[Hwb Hpar] _]. apply negb_true_iff in Hwb.
        apply andb_true_iff in Hn. destruct Hn as [Hin Hty].
        cbn [eabs_b]. rewrite Hwb, Hpar. rewrite (key_pos n Hin), (pos_of_nth_str type_words ty eq_refl Hty).
        unfold lstep; cbn [lclass]. cbn [eclass fold_left] in Htr. rewrite (IH _ Hnr Htr). reflexivity.
      + rewrite !andb_true_iff in Hk. destruct Hk as [Hwb Hpar]. apply negb_true_iff in Hwb.
        cbn [eabs_b]. rewrite Hwb, Hpar. rewrite colon_type_skip by exact Hnc. rewrite (key_pos n Hn).
        unfold lstep; cbn [lclass]. cbn [eclass fold_left] in Htr. rewrite (IH _ Hnr Htr). reflexivity.
  Qed.

  (* ---------------------------------------------------------------- text level *)

  Theorem parse_text_unlex_all : forall ts, eflag_ok false ts = true -> forallb (names_all keys) ts = true -> etrack_ok tstate0 ts = true ->
    parse_text_all keys dec (unlex (econc_all keys enc ts)) = eparse_tokens ts.
  Proof.
    intros ts Hf Hn Ht. unfold parse_text_all. rewrite lex_b_unlex; [|exact Hkeys|].
    - rewrite eabs_b_econc by assumption. reflexivity.
    - apply (printable_b_econc ts tstate0 false false false eq_refl Hf Hn Ht).
  Qed.

  Theorem parse_text_layout_all : forall ts lead gaps, eflag_ok false ts = true -> forallb (names_all keys) ts = true -> etrack_ok tstate0 ts = true ->
    gaps_ok_b tstate0 flags0 (econc_all keys enc ts) gaps = true -> forallb piece_ok lead = true -> forallb gap_ok gaps = true ->
    parse_text_all keys dec (render_layout lead ++ unlex_lay gaps (econc_all keys enc ts)) = eparse_tokens ts.
  Proof.
    intros ts lead gaps Hf Hn Ht Hgb Hl Hg. unfold parse_text_all. rewrite lex_b_unlex_layout; try assumption.
    - rewrite eabs_b_econc by assumption. reflexivity.
    - apply (printable_b_econc ts tstate0 false false false eq_refl Hf Hn Ht).
  Qed.
End All.
