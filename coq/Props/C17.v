(* C17 — property theorems only.  Statements are pinned with Check; proofs are in C17/Proofs.v. *)
From Coq Require Import List NArith Bool.
From DV Require Import C17.Model C17.Proofs.
Import ListNotations.
Open Scope N_scope.

Theorem C17_reachable_inv : forall ops, Inv (fst (run remove init ops)).
Proof. exact reachable_inv. Qed.

Theorem C17_refines_abstract : forall ops,
  defs (fst (run remove init ops)) = adefs (fst (arun ainit ops)) /\
  (forall k, mem k (evs (fst (run remove init ops))) = mem k (aevs (fst (arun ainit ops)))) /\
  snd (run remove init ops) = snd (arun ainit ops).
Proof. exact refines_abstract. Qed.

Theorem C17_add_iff_free : forall ops m, let s := fst (run remove init ops) in
  snd (add s m) = true <-> (forall d, In d (defs s) -> ns d <> ns m /\ nm d <> nm m).
Proof. exact add_iff_free. Qed.

Theorem C17_deployed_exactly : forall pre post k, forallb is_eval post = true ->
  mem k (evs (fst (run remove init (pre ++ Deploy :: post)))) = true <->
  exists d, In d (defs (fst (run remove init pre))) /\ builds d = true /\ nm d = k.
Proof. exact deployed_exactly. Qed.

Theorem C17_mutation_undeploys : forall pre o post k, forallb is_eval post = true ->
  mutates (fst (arun ainit pre)) o = true ->
  mem k (evs (fst (run remove init (pre ++ o :: post)))) = false.
Proof. exact mutation_undeploys. Qed.

Theorem C17_failed_build_isolated : forall ops d, let s := fst (run remove init ops) in
  In d (defs s) -> builds d = true -> mem (nm d) (evs (deploy s)) = true.
Proof. exact failed_build_isolated. Qed.

Theorem C17_orig_remove_refuted : exists ops,
  ~ Inv (fst (run remove_orig init ops)) /\
  snd (run remove_orig init (ops ++ [Add mB])) <> snd (arun ainit (ops ++ [Add mB])).
Proof. exact orig_remove_refuted. Qed.

Example C17_nonvacuous :
  let s := fst (run remove init [Add mA; Add mE; Add mB; Remove 2 12; Deploy]) in
  defs s = [mA; mE] /\ mem 11 (evs s) = true /\ mem 14 (evs s) = false.
Proof. exact reachable_nontrivial. Qed.

Print Assumptions C17_reachable_inv.
Print Assumptions C17_refines_abstract.
Print Assumptions C17_add_iff_free.
Print Assumptions C17_deployed_exactly.
Print Assumptions C17_mutation_undeploys.
Print Assumptions C17_failed_build_isolated.
Print Assumptions C17_orig_remove_refuted.
Print Assumptions C17_nonvacuous.
